package c13

import (
	"crypto/sha256"
	"encoding/binary"
	"encoding/hex"
	"fmt"
	"io"
	"net"
	"net/http"
	"net/http/fcgi"
	"sort"
	"strconv"
	"sync"
	"sync/atomic"
	"time"
)

// FastCGI record types (FastCGI 1.0 specification, section 8).
const (
	tBegin  = 1
	tAbort  = 2
	tEnd    = 3
	tParams = 4
	tStdin  = 5
	tStdout = 6
	tStderr = 7
)

// recMeta is what the scripted responder keeps of every record it received.
type recMeta struct {
	Type uint8
	ID   uint16
	Len  int
	Pad  int
}

// received is one request as seen by the scripted responder.
type received struct {
	Recs       []recMeta
	Role       int
	Flags      int
	Params     []byte // concatenated PARAMS stream
	Stdin      []byte // concatenated STDIN stream
	ParamRecs  int    // non-empty PARAMS records
	StdinRecs  int    // non-empty STDIN records
	ProtoErr   string // first framing / stream-discipline problem seen
	Complete   bool   // both streams were closed by an empty record
	MaxContent int
}

// outRec is one record of the scripted reply.
type outRec struct {
	Type    uint8
	Content []byte
	Pad     uint8
}

// script is the armed reply of the scripted responder.
type script struct {
	Recs []outRec
	// Seg > 0: the reply bytes are written to the socket in pieces of Seg
	// bytes (exercises partial reads in the gateway); 0 = one write.
	Seg int
	// ThinkMs: pause between the end of the request and the first reply byte.
	ThinkMs int
}

// scripted is the byte-level FastCGI responder of the harness: it records the
// exact record stream of every request and plays back the armed framing.
type scripted struct {
	ln    net.Listener
	mu    sync.Mutex
	armed *script
	got   []*received
	conns int64
}

func newScripted() *scripted {
	ln, err := net.Listen("tcp", "127.0.0.1:0")
	if err != nil {
		panic(err)
	}
	s := &scripted{ln: ln}
	go s.loop()
	return s
}

func (s *scripted) addr() string { return s.ln.Addr().String() }
func (s *scripted) close()       { s.ln.Close() }

func (s *scripted) arm(sc *script) {
	s.mu.Lock()
	s.armed = sc
	s.got = nil
	s.mu.Unlock()
}

func (s *scripted) take() []*received {
	s.mu.Lock()
	defer s.mu.Unlock()
	g := s.got
	s.got = nil
	s.armed = nil
	return g
}

func (s *scripted) loop() {
	for {
		c, err := s.ln.Accept()
		if err != nil {
			return
		}
		atomic.AddInt64(&s.conns, 1)
		go s.serve(c)
	}
}

func (s *scripted) serve(c net.Conn) {
	defer c.Close()
	for {
		rq := &received{}
		keep, ok := s.readRequest(c, rq)
		s.mu.Lock()
		if len(rq.Recs) > 0 {
			s.got = append(s.got, rq)
		}
		sc := s.armed
		s.mu.Unlock()
		if !ok {
			return
		}
		id := uint16(1)
		if len(rq.Recs) > 0 {
			id = rq.Recs[0].ID
		}
		var out []byte
		if sc != nil {
			for _, r := range sc.Recs {
				out = appendRec(out, r.Type, id, r.Content, r.Pad)
			}
		} else {
			// not armed: a minimal conforming reply
			out = appendRec(out, tStdout, id, []byte("Content-Type: text/plain\r\n\r\nunarmed"), 0)
			out = appendRec(out, tStdout, id, nil, 0)
		}
		// END_REQUEST: appStatus 0, protocolStatus REQUEST_COMPLETE
		out = appendRec(out, tEnd, id, make([]byte, 8), 0)
		seg := 0
		if sc != nil {
			seg = sc.Seg
			if sc.ThinkMs > 0 {
				time.Sleep(time.Duration(sc.ThinkMs) * time.Millisecond)
			}
		}
		if seg <= 0 {
			if _, err := c.Write(out); err != nil {
				return
			}
		} else {
			for len(out) > 0 {
				n := seg
				if n > len(out) {
					n = len(out)
				}
				if _, err := c.Write(out[:n]); err != nil {
					return
				}
				out = out[n:]
			}
		}
		if !keep {
			return
		}
	}
}

func appendRec(out []byte, typ uint8, id uint16, content []byte, pad uint8) []byte {
	var h [8]byte
	h[0] = 1
	h[1] = typ
	binary.BigEndian.PutUint16(h[2:], id)
	binary.BigEndian.PutUint16(h[4:], uint16(len(content)))
	h[6] = pad
	out = append(out, h[:]...)
	out = append(out, content...)
	for i := 0; i < int(pad); i++ {
		out = append(out, byte(0xA0+i%7)) // padding content is arbitrary by the spec
	}
	return out
}

// readRequest reads records until the STDIN stream is closed. It returns
// whether the gateway asked to keep the connection and whether a complete
// request was read.
func (s *scripted) readRequest(c net.Conn, rq *received) (keep, ok bool) {
	var h [8]byte
	paramsClosed, stdinClosed, begun := false, false, false
	fail := func(f string, a ...interface{}) {
		if rq.ProtoErr == "" {
			rq.ProtoErr = fmt.Sprintf(f, a...)
		}
	}
	for {
		if _, err := io.ReadFull(c, h[:]); err != nil {
			if len(rq.Recs) > 0 {
				fail("connection ended inside a request after %d records: %v", len(rq.Recs), err)
			}
			return false, false
		}
		typ := h[1]
		id := binary.BigEndian.Uint16(h[2:])
		n := int(binary.BigEndian.Uint16(h[4:]))
		pad := int(h[6])
		if h[0] != 1 {
			fail("record %d: version %d", len(rq.Recs), h[0])
			return false, false
		}
		buf := make([]byte, n+pad)
		if _, err := io.ReadFull(c, buf); err != nil {
			fail("record %d (type %d len %d pad %d): short content: %v", len(rq.Recs), typ, n, pad, err)
			return false, false
		}
		rq.Recs = append(rq.Recs, recMeta{Type: typ, ID: id, Len: n, Pad: pad})
		if n > rq.MaxContent {
			rq.MaxContent = n
		}
		if id == 0 {
			fail("record %d: application record with request id 0 (type %d)", len(rq.Recs)-1, typ)
		}
		if id != rq.Recs[0].ID {
			fail("record %d: request id %d differs from BEGIN_REQUEST id %d", len(rq.Recs)-1, id, rq.Recs[0].ID)
		}
		content := buf[:n]
		switch typ {
		case tBegin:
			if begun {
				fail("second BEGIN_REQUEST")
			}
			begun = true
			if n != 8 {
				fail("BEGIN_REQUEST body of %d bytes", n)
			} else {
				rq.Role = int(binary.BigEndian.Uint16(content))
				rq.Flags = int(content[2])
				keep = content[2]&1 == 1
			}
		case tParams:
			if !begun {
				fail("PARAMS before BEGIN_REQUEST")
			}
			if paramsClosed {
				fail("PARAMS record after the PARAMS stream was closed")
			}
			if n == 0 {
				paramsClosed = true
			} else {
				rq.ParamRecs++
				rq.Params = append(rq.Params, content...)
			}
		case tStdin:
			if !begun {
				fail("STDIN before BEGIN_REQUEST")
			}
			if stdinClosed {
				fail("STDIN record after the STDIN stream was closed")
			}
			if n == 0 {
				stdinClosed = true
			} else {
				rq.StdinRecs++
				rq.Stdin = append(rq.Stdin, content...)
			}
		case tAbort:
			fail("ABORT_REQUEST received")
			return false, false
		default:
			fail("record %d: unexpected type %d from the gateway", len(rq.Recs)-1, typ)
		}
		if stdinClosed {
			if !paramsClosed {
				fail("STDIN closed but the PARAMS stream never was")
			}
			rq.Complete = paramsClosed
			return keep, true
		}
	}
}

// decodePairs decodes a FastCGI name-value stream (spec section 3.4).
func decodePairs(b []byte) (pairs [][2]string, err error) {
	readLen := func() (int, bool) {
		if len(b) == 0 {
			return 0, false
		}
		if b[0]>>7 == 0 {
			n := int(b[0])
			b = b[1:]
			return n, true
		}
		if len(b) < 4 {
			return 0, false
		}
		n := int(binary.BigEndian.Uint32(b) & 0x7fffffff)
		b = b[4:]
		return n, true
	}
	for len(b) > 0 {
		nl, ok := readLen()
		if !ok {
			return pairs, fmt.Errorf("truncated name length after %d pairs", len(pairs))
		}
		vl, ok := readLen()
		if !ok {
			return pairs, fmt.Errorf("truncated value length after %d pairs", len(pairs))
		}
		if nl+vl > len(b) {
			return pairs, fmt.Errorf("pair %d announces %d+%d bytes, only %d left", len(pairs), nl, vl, len(b))
		}
		pairs = append(pairs, [2]string{string(b[:nl]), string(b[nl : nl+vl])})
		b = b[nl+vl:]
	}
	return pairs, nil
}

// ---------------------------------------------------------------------------
// reference responder: Go's net/http/fcgi child.

// refSeen is what the net/http/fcgi handler saw for one request.
type refSeen struct {
	Method   string
	Host     string
	URI      string
	RawQuery string
	Header   http.Header
	Env      map[string]string
	BodyLen  int
	BodySHA  string
	ReadErr  string
	OutSHA   string
	OutLen   int
	Status   int
}

type goref struct {
	ln   net.Listener
	mu   sync.Mutex
	seen []*refSeen
	hits int64
}

func newGoref() *goref {
	ln, err := net.Listen("tcp", "127.0.0.1:0")
	if err != nil {
		panic(err)
	}
	g := &goref{ln: ln}
	go fcgi.Serve(ln, http.HandlerFunc(g.handle))
	return g
}

func (g *goref) addr() string { return g.ln.Addr().String() }
func (g *goref) close()       { g.ln.Close() }

func (g *goref) reset() {
	g.mu.Lock()
	g.seen = nil
	g.mu.Unlock()
}

func (g *goref) take() []*refSeen {
	g.mu.Lock()
	defer g.mu.Unlock()
	s := g.seen
	g.seen = nil
	return s
}

func sha(b []byte) string {
	h := sha256.Sum256(b)
	return hex.EncodeToString(h[:12])
}

// handle echoes what it saw as text and appends a deterministic filler whose
// size the request chooses (X-C13-Fill), with the status the request chooses
// (X-C13-Status), so that the reply path is exercised with the reference
// implementation's own framing (64 KiB records, 8-byte alignment padding).
func (g *goref) handle(w http.ResponseWriter, r *http.Request) {
	atomic.AddInt64(&g.hits, 1)
	body, err := io.ReadAll(r.Body)
	seen := &refSeen{Method: r.Method, Host: r.Host, URI: r.RequestURI, RawQuery: r.URL.RawQuery, Header: r.Header.Clone(),
		Env: fcgi.ProcessEnv(r), BodyLen: len(body), BodySHA: sha(body)}
	if err != nil {
		seen.ReadErr = err.Error()
	}
	fill, _ := strconv.Atoi(r.Header.Get("X-C13-Fill"))
	status, _ := strconv.Atoi(r.Header.Get("X-C13-Status"))
	if status == 0 {
		status = 200
	}
	seen.Status = status
	var out []byte
	out = append(out, fmt.Sprintf("go-fcgi saw %s %s body=%d sha=%s\n", r.Method, r.RequestURI, len(body), seen.BodySHA)...)
	keys := make([]string, 0, len(seen.Env))
	for k := range seen.Env {
		keys = append(keys, k)
	}
	sort.Strings(keys)
	for _, k := range keys {
		v := seen.Env[k]
		if len(v) > 64 {
			v = v[:64]
		}
		out = append(out, fmt.Sprintf("%s=%q\n", k, v)...)
	}
	if status == 204 || status == 304 {
		out = nil
	} else if fill > 0 {
		out = append(out, detBytes(uint64(fill)*2654435761+uint64(len(body)), fill)...)
	}
	seen.OutLen = len(out)
	seen.OutSHA = sha(out)
	w.Header().Set("Content-Type", "text/x-c13-ref")
	w.Header().Set("X-C13-Ref", "go-fcgi")
	w.Header().Add("X-C13-Multi", "one")
	w.Header().Add("X-C13-Multi", "two")
	g.mu.Lock()
	g.seen = append(g.seen, seen)
	g.mu.Unlock()
	w.WriteHeader(status)
	w.Write(out)
}
