package c13

import (
	"bytes"
	"fmt"
	"net/http"
	"net/textproto"
	"os"
	"path"
	"path/filepath"
	"sort"
	"strconv"
	"strings"

	"verifharness/lib"
)

func lowerASCII(s string) string {
	b := []byte(s)
	for i := range b {
		if b[i] >= 'A' && b[i] <= 'Z' {
			b[i] += 32
		}
	}
	return string(b)
}

// indexFoldASCII is the reference for "split at the configured split
// string": first occurrence on the ORIGINAL bytes, ASCII letters folded.
func indexFoldASCII(s, sub string) int {
	return strings.Index(lowerASCII(s), lowerASCII(sub))
}

type splitWant struct{ Script, Info string }

// splits returns the acceptable (script name, path info) pairs for a request path.
func (w *world) splits(k *kase) []splitWant {
	cands := []string{k.Path}
	if t := strings.TrimRight(k.Path, " ."); t != k.Path {
		cands = append(cands, t)
	}
	var out []splitWant
	for _, p := range cands {
		fp := p
		if strings.HasSuffix(p, "/") {
			ip := path.Join(p, k.Cfg.Index)
			// a directory path is replaced by its index file when there is one
			if st, err := os.Stat(filepath.Join(w.root, filepath.FromSlash(ip))); err == nil && !st.IsDir() {
				fp = ip
			}
		}
		pos := indexFoldASCII(fp, k.Cfg.Split)
		if pos < 0 {
			continue
		}
		e := pos + len(k.Cfg.Split)
		out = append(out, splitWant{fp[:e], fp[e:]})
	}
	return out
}

func (w *world) excepted(k *kase) bool {
	p := lowerASCII(path.Clean(k.Path))
	for _, e := range k.Cfg.Except {
		if strings.HasPrefix(p, lowerASCII(path.Join(k.Cfg.rulePath(), e))) {
			return true
		}
	}
	return false
}

// mustRoute: the last sentence of the statement applies to this request.
func (w *world) mustRoute(k *kase) bool {
	if !strings.HasPrefix(k.Path, k.Cfg.Base+"/") || w.excepted(k) {
		return false
	}
	if !strings.HasSuffix(lowerASCII(k.Path), lowerASCII(k.Cfg.Ext)) {
		return false
	}
	st, err := os.Stat(filepath.Join(w.root, filepath.FromSlash(k.Path)))
	return err == nil && st.Mode().IsRegular()
}

func clip(s string, n int) string {
	if len(s) > n {
		return fmt.Sprintf("%s...(%d bytes)", s[:n], len(s))
	}
	return s
}

func firstDiff(a, b []byte) int {
	n := len(a)
	if len(b) < n {
		n = len(b)
	}
	for i := 0; i < n; i++ {
		if a[i] != b[i] {
			return i
		}
	}
	if len(a) != len(b) {
		return n
	}
	return -1
}

func (w *world) viol(k *kase, key, what string, extra map[string]interface{}) {
	wit := k.describe()
	for a, b := range extra {
		wit[a] = b
	}
	wit["how_to_replay"] = "start casket with the rule in 'rule' on a site whose root holds the named script, point it at a FastCGI responder, send the request described here"
	w.c.Violation(key, fmt.Sprintf("case %d: %s", k.N, what), wit)
}

// splitKey picks the defect class of a wrong split / failed dispatch. The
// class "split position computed on a lower-cased copy" is only named when
// the observation is what that mechanism predicts for this path (gotScript is
// the script name the responder received, "" when nothing was dispatched
// because the handler panicked); every other failure keeps the generic key.
func (w *world) splitKey(k *kase, gotScript string, panicked bool, other string) string {
	if !hasFoldRune(k.Path) {
		return other
	}
	cands := []string{k.Path, strings.TrimRight(k.Path, " .")}
	for _, p := range cands {
		fp := p
		if strings.HasSuffix(p, "/") {
			ip := path.Join(p, k.Cfg.Index)
			if st, err := os.Stat(filepath.Join(w.root, filepath.FromSlash(ip))); err == nil && !st.IsDir() {
				fp = ip
			}
		}
		pos := strings.Index(strings.ToLower(fp), strings.ToLower(k.Cfg.Split))
		if pos < 0 {
			continue
		}
		e := pos + len(k.Cfg.Split)
		if e > len(fp) {
			if panicked {
				return "C13/split-on-lowercased-path"
			}
			continue
		}
		if gotScript != "" && gotScript == fp[:e] && pos != indexFoldASCII(fp, k.Cfg.Split) {
			return "C13/split-on-lowercased-path"
		}
	}
	return other
}

func respSummary(resp *lib.Resp) map[string]interface{} {
	if resp == nil {
		return nil
	}
	if resp.Err != nil && resp.Status == 0 {
		return map[string]interface{}{"error": resp.Err.Error()}
	}
	m := map[string]interface{}{"status": resp.Status, "body_len": len(resp.Body), "body_head": clip(string(resp.Body), 200)}
	if resp.Err != nil {
		m["error"] = resp.Err.Error()
	}
	return m
}

func (w *world) judge(k *kase, s *site, resp *lib.Resp, got []*received, seen []*refSeen, tail string) {
	c := w.c
	panicked := strings.Contains(tail, "[PANIC")
	panicLine := ""
	if panicked {
		i := strings.Index(tail, "[PANIC")
		panicLine = tail[i:]
		if j := strings.IndexByte(panicLine, '\n'); j > 0 {
			panicLine = panicLine[:j]
		}
	}
	hit := len(got) > 0 || len(seen) > 0
	if hit {
		c.Count("responder_hits", 1)
	}
	fold := hasFoldRune(k.Path)
	if fold {
		c.Count("fold_length_paths_judged", 1)
	}

	// --- script source must never be returned as static text
	if resp != nil && resp.Err == nil {
		if i := bytes.Index(resp.Body, []byte(srcPrefix)); i >= 0 {
			end := i + len(srcPrefix) + 13
			if end > len(resp.Body) {
				end = len(resp.Body)
			}
			tok := string(resp.Body[i:end])
			rel := w.tokens[tok]
			switch {
			case strings.HasSuffix(rel, "/style.css") || strings.HasSuffix(rel, ".txt"):
				c.Count("static_control_served", 1)
			case w.excepted(k):
				c.Count("excepted_path_served_statically", 1)
			case strings.HasSuffix(lowerASCII(rel), lowerASCII(k.Cfg.Ext)) && strings.HasPrefix(rel, k.Cfg.Base+"/"):
				w.viol(k, "C13/source-disclosed", fmt.Sprintf("the source of %s (extension %s, under rule path %s) was returned to the client as static text", rel, k.Cfg.Ext, k.Cfg.rulePath()),
					map[string]interface{}{"response": respSummary(resp), "file": rel})
			}
		}
	}
	must := w.mustRoute(k)
	if must {
		c.Count("required_routing_checked", 1)
	}
	if !hit {
		switch {
		case must:
			w.viol(k, w.splitKey(k, "", panicked, "C13/ext-file-not-routed"), fmt.Sprintf("request for the existing file %q (rule extension %s, under %s) never reached the responder; client got %v; panic logged: %q", k.Path, k.Cfg.Ext, k.Cfg.rulePath(), respSummary(resp), panicLine),
				map[string]interface{}{"response": respSummary(resp), "error_log": clip(tail, 600)})
		case panicked:
			w.viol(k, w.splitKey(k, "", panicked, "C13/handler-panic"), fmt.Sprintf("the fastcgi handler panicked before dispatch (%s); client got %v", panicLine, respSummary(resp)),
				map[string]interface{}{"response": respSummary(resp), "error_log": clip(tail, 600)})
		default:
			c.Count("not_routed", 1)
		}
		return
	}
	if len(got)+len(seen) > 1 {
		var ds []string
		for _, g := range got {
			ps, _ := decodePairs(g.Params)
			d := fmt.Sprintf("records=%d stdin=%d err=%q", len(g.Recs), len(g.Stdin), g.ProtoErr)
			for _, p := range ps {
				if p[0] == "REQUEST_METHOD" || p[0] == "REQUEST_URI" {
					d += " " + p[0] + "=" + clip(p[1], 100)
				}
			}
			ds = append(ds, d)
		}
		for _, g := range seen {
			ds = append(ds, fmt.Sprintf("%s %s body=%d", g.Method, clip(g.URI, 100), g.BodyLen))
		}
		w.viol(k, "C13/dispatched-more-than-once", fmt.Sprintf("one HTTP request produced %d FastCGI requests: %q", len(got)+len(seen), ds), nil)
		return
	}
	wants := w.splits(k)
	if len(wants) == 0 {
		w.viol(k, "C13/routed-without-split", fmt.Sprintf("path %q does not contain the split string %q (and resolves to no index file) but was sent to the responder", k.Path, k.Cfg.Split), nil)
		return
	}

	// --- expected HTTP_* variables
	type hv struct {
		val  string
		fits bool
	}
	order := []string{}
	vals := map[string][]string{}
	for _, h := range k.Hdrs {
		n := envName(h[0])
		if _, ok := vals[n]; !ok {
			order = append(order, n)
		}
		vals[n] = append(vals[n], h[1])
	}
	if k.HasBody && !k.Chunked {
		vals["HTTP_CONTENT_LENGTH"] = []string{strconv.Itoa(len(k.body))}
		order = append(order, "HTTP_CONTENT_LENGTH")
	}
	wantHTTP := map[string]hv{}
	for _, n := range order {
		v := strings.Join(vals[n], ", ")
		fits := 8+len(n)+len(v) <= 65500
		wantHTTP[n] = hv{v, fits}
		if l := len(n); l >= 126 && l <= 129 {
			c.Count("pairs_at_length_boundary", 1)
		}
		if l := len(v); (l >= 126 && l <= 129) || l == 255 || l == 256 {
			c.Count("pairs_at_length_boundary", 1)
		}
		if d := 8 + len(n) + len(v) - 65500; d >= -2 && d <= 0 {
			c.Count("pairs_at_record_limit", 1)
		} else if d > 0 {
			c.Count("pairs_over_record_not_judged", 1)
		}
	}
	wantHTTP["HTTP_HOST"] = hv{s.host, true}
	ctype := ""
	for _, h := range k.Hdrs {
		if strings.EqualFold(h[0], "Content-Type") {
			ctype = h[1]
		}
	}

	if k.Cfg.Ref {
		w.judgeRef(k, s, resp, seen[0], wants, panicked, panicLine)
		// header / env comparison on the reference side
		sn := seen[0]
		wantHdr := map[string][]string{}
		for n, v := range wantHTTP {
			if n == "HTTP_HOST" || n == "HTTP_CONTENT_TYPE" || n == "HTTP_CONTENT_LENGTH" || !v.fits {
				continue
			}
			hn := textproto.CanonicalMIMEHeaderKey(strings.ReplaceAll(n[5:], "_", "-"))
			wantHdr[hn] = append(wantHdr[hn], v.val)
		}
		bad := ""
		for hn, v := range wantHdr {
			g := sn.Header[hn]
			sort.Strings(g)
			sort.Strings(v)
			if strings.Join(g, "\x00") != strings.Join(v, "\x00") {
				bad = fmt.Sprintf("field %s: reference responder saw %q, request carried %q", clip(hn, 80), clip(strings.Join(g, "|"), 200), clip(strings.Join(v, "|"), 200))
				break
			}
		}
		if bad == "" {
			for hn := range sn.Header {
				if _, ok := wantHdr[hn]; ok || hn == "Content-Type" || hn == "Content-Length" || hn == "Transfer-Encoding" {
					continue
				}
				over := false
				for n, v := range wantHTTP {
					if !v.fits && textproto.CanonicalMIMEHeaderKey(strings.ReplaceAll(n[5:], "_", "-")) == hn {
						over = true
					}
				}
				if !over {
					bad = fmt.Sprintf("reference responder saw a header field %s that the request did not carry", clip(hn, 80))
					break
				}
			}
		}
		if bad != "" {
			w.viol(k, "C13/params-http-header", bad, nil)
		}
		if ctype != "" && sn.Header.Get("Content-Type") != ctype {
			w.viol(k, "C13/params-content-type", fmt.Sprintf("CONTENT_TYPE seen by the reference responder %q, request had %q", sn.Header.Get("Content-Type"), ctype), nil)
		}
		c.Count("ref_requests_compared", 1)
		return
	}

	// --- scripted responder: byte-level request check
	rq := got[0]
	if rq.ProtoErr != "" || !rq.Complete {
		w.viol(k, "C13/request-framing", "the record stream sent to the responder is not a well-formed FastCGI request: "+rq.ProtoErr, map[string]interface{}{"records": recSummary(rq)})
		return
	}
	if rq.Role != 1 {
		w.viol(k, "C13/request-framing", fmt.Sprintf("BEGIN_REQUEST role %d, want 1 (responder)", rq.Role), nil)
	}
	c.Max("max_record_content_seen", int64(rq.MaxContent))
	if rq.ParamRecs > 1 {
		c.Count("multi_record_params", 1)
	}
	if rq.StdinRecs > 1 {
		c.Count("multi_record_stdin", 1)
	}
	pairs, err := decodePairs(rq.Params)
	if err != nil {
		w.viol(k, "C13/params-encoding", "the PARAMS stream does not decode as name-value pairs: "+err.Error(), map[string]interface{}{"records": recSummary(rq)})
		return
	}
	gotEnv := map[string]string{}
	for _, p := range pairs {
		if _, dup := gotEnv[p[0]]; dup {
			w.viol(k, "C13/params-duplicate-name", fmt.Sprintf("variable %s sent twice", clip(p[0], 80)), nil)
		}
		gotEnv[p[0]] = p[1]
	}
	c.Count("params_pairs_decoded", int64(len(pairs)))
	bad := ""
	key := "C13/params-http-header"
	for n, v := range wantHTTP {
		g, ok := gotEnv[n]
		if !v.fits {
			continue
		}
		if !ok {
			bad = fmt.Sprintf("variable %s (value of %d bytes) missing from PARAMS", clip(n, 80), len(v.val))
			break
		}
		if g != v.val {
			bad = fmt.Sprintf("variable %s: responder received %d bytes %q, request carried %d bytes %q (first difference at %d)", clip(n, 80), len(g), clip(g, 120), len(v.val), clip(v.val, 120), firstDiff([]byte(g), []byte(v.val)))
			break
		}
	}
	if bad == "" {
		for n := range gotEnv {
			if !strings.HasPrefix(n, "HTTP_") || n == "HTTP_TRANSFER_ENCODING" {
				continue
			}
			if _, ok := wantHTTP[n]; !ok {
				bad = fmt.Sprintf("PARAMS carries %s=%q but the request had no such header field", clip(n, 80), clip(gotEnv[n], 80))
				break
			}
		}
	}
	if bad != "" {
		w.viol(k, key, bad, nil)
	}
	// split
	okSplit := false
	for _, sw := range wants {
		if gotEnv["SCRIPT_NAME"] == sw.Script && gotEnv["PATH_INFO"] == sw.Info && gotEnv["DOCUMENT_URI"] == sw.Script {
			okSplit = true
		}
	}
	if !okSplit {
		w.viol(k, w.splitKey(k, gotEnv["DOCUMENT_URI"], false, "C13/script-split-wrong"), fmt.Sprintf("path %q split at %q: responder received SCRIPT_NAME=%q PATH_INFO=%q DOCUMENT_URI=%q, want one of %v", k.Path, k.Cfg.Split, gotEnv["SCRIPT_NAME"], gotEnv["PATH_INFO"], gotEnv["DOCUMENT_URI"], wants),
			map[string]interface{}{"got_script_name": gotEnv["SCRIPT_NAME"], "got_path_info": gotEnv["PATH_INFO"], "got_document_uri": gotEnv["DOCUMENT_URI"]})
	}
	// configured env entries
	for _, e := range k.Cfg.Env {
		want, judged := envWant(e[1], k)
		g, ok := gotEnv[e[0]]
		if !ok {
			w.viol(k, "C13/params-env-entry", fmt.Sprintf("configured env entry %s missing from PARAMS", e[0]), nil)
		} else if judged && g != want {
			w.viol(k, "C13/params-env-entry", fmt.Sprintf("configured env entry %s: responder received %q, want %q", e[0], clip(g, 100), clip(want, 100)), nil)
		}
	}
	// request-derived scalars
	scal := map[string]string{"REQUEST_METHOD": k.Method, "QUERY_STRING": k.Query, "SERVER_PROTOCOL": "HTTP/1.1", "GATEWAY_INTERFACE": "CGI/1.1"}
	if k.HasBody && !k.Chunked {
		scal["CONTENT_LENGTH"] = strconv.Itoa(len(k.body))
	}
	if ctype != "" {
		scal["CONTENT_TYPE"] = ctype
	}
	optDrop := k.Method == "OPTIONS" && k.HasBody && len(k.body) > 0 && len(rq.Stdin) == 0
	if optDrop {
		delete(scal, "CONTENT_LENGTH")
		w.viol(k, "C13/options-body-dropped", fmt.Sprintf("OPTIONS request with a body of %d bytes: the responder received an empty STDIN stream and CONTENT_LENGTH=%q", len(k.body), gotEnv["CONTENT_LENGTH"]), map[string]interface{}{"records": recSummary(rq)})
	}
	for n, v := range scal {
		if gotEnv[n] != v {
			w.viol(k, "C13/params-"+strings.ToLower(n), fmt.Sprintf("%s: responder received %q, request implies %q", n, clip(gotEnv[n], 100), clip(v, 100)), nil)
		}
	}
	c.Count("params_maps_compared", 1)
	// stdin
	wantBody := k.body
	if !k.HasBody {
		wantBody = nil
	}
	if !optDrop && !bytes.Equal(rq.Stdin, wantBody) {
		w.viol(k, "C13/stdin-bytes", fmt.Sprintf("STDIN stream has %d bytes in %d records, request body has %d bytes (first difference at offset %d)", len(rq.Stdin), rq.StdinRecs, len(wantBody), firstDiff(rq.Stdin, wantBody)),
			map[string]interface{}{"records": recSummary(rq)})
	}
	c.Count("stdin_streams_compared", 1)
	if k.HasBody && (k.BodyLen%65500 <= 1 || k.BodyLen%65500 == 65499) && k.BodyLen > 1 {
		c.Count("bodies_at_record_boundary", 1)
	}
	if k.HasBody {
		c.Max("max_body_sent", int64(k.BodyLen))
	}

	// --- reply
	w.judgeReply(k, s, resp, panicked, panicLine, tail)
}

func recSummary(rq *received) string {
	var b strings.Builder
	for i, r := range rq.Recs {
		if i > 40 {
			fmt.Fprintf(&b, " ...(%d records)", len(rq.Recs))
			break
		}
		fmt.Fprintf(&b, " [t%d id%d len%d pad%d]", r.Type, r.ID, r.Len, r.Pad)
	}
	return b.String()
}

func (w *world) judgeRef(k *kase, s *site, resp *lib.Resp, sn *refSeen, wants []splitWant, panicked bool, panicLine string) {
	c := w.c
	if panicked {
		w.viol(k, "C13/handler-panic", "the fastcgi handler panicked while relaying the reference responder: "+panicLine, map[string]interface{}{"response": respSummary(resp)})
		return
	}
	if sn.Method != k.Method {
		w.viol(k, "C13/params-request_method", fmt.Sprintf("reference responder saw method %q, request was %q", sn.Method, k.Method), nil)
	}
	if sn.Host != s.host {
		w.viol(k, "C13/params-http-header", fmt.Sprintf("reference responder saw Host %q, request had %q", sn.Host, s.host), nil)
	}
	if sn.RawQuery != k.Query {
		w.viol(k, "C13/params-query_string", fmt.Sprintf("reference responder saw query %q, request had %q", clip(sn.RawQuery, 100), clip(k.Query, 100)), nil)
	}
	okSplit := false
	for _, sw := range wants {
		if sn.Env["DOCUMENT_URI"] == sw.Script {
			okSplit = true
		}
	}
	if !okSplit {
		w.viol(k, w.splitKey(k, sn.Env["DOCUMENT_URI"], false, "C13/script-split-wrong"), fmt.Sprintf("path %q split at %q: reference responder received DOCUMENT_URI=%q, want one of %v", k.Path, k.Cfg.Split, sn.Env["DOCUMENT_URI"], wants), nil)
	}
	for _, e := range k.Cfg.Env {
		want, judged := envWant(e[1], k)
		g, ok := sn.Env[e[0]]
		if !ok {
			w.viol(k, "C13/params-env-entry", fmt.Sprintf("configured env entry %s missing at the reference responder", e[0]), nil)
		} else if judged && g != want {
			w.viol(k, "C13/params-env-entry", fmt.Sprintf("configured env entry %s: reference responder received %q, want %q", e[0], clip(g, 100), clip(want, 100)), nil)
		}
	}
	wantLen, wantSHA := 0, sha(nil)
	if k.HasBody {
		wantLen, wantSHA = len(k.body), sha(k.body)
	}
	if k.Method == "OPTIONS" && wantLen > 0 && sn.BodyLen == 0 && sn.ReadErr == "" {
		w.viol(k, "C13/options-body-dropped", fmt.Sprintf("OPTIONS request with a body of %d bytes: the reference responder read an empty body", wantLen), nil)
	} else if sn.ReadErr != "" || sn.BodyLen != wantLen || sn.BodySHA != wantSHA {
		w.viol(k, "C13/stdin-bytes", fmt.Sprintf("reference responder read a body of %d bytes (sha %s, err %q), request body has %d bytes (sha %s)", sn.BodyLen, sn.BodySHA, sn.ReadErr, wantLen, wantSHA), nil)
	}
	if k.HasBody && (k.BodyLen%65500 <= 1 || k.BodyLen%65500 == 65499) && k.BodyLen > 1 {
		c.Count("bodies_at_record_boundary", 1)
	}
	// reply of the reference responder
	if resp == nil || resp.Err != nil {
		w.viol(k, "C13/reply-unreadable", fmt.Sprintf("the client could not read a response although the reference responder answered %d with %d bytes: %v", sn.Status, sn.OutLen, respSummary(resp)), nil)
		return
	}
	if resp.Status != sn.Status {
		w.viol(k, "C13/reply-status", fmt.Sprintf("reference responder answered %d, client received %d", sn.Status, resp.Status), map[string]interface{}{"response": respSummary(resp)})
		return
	}
	if g := resp.Header["X-C13-Multi"]; strings.Join(g, "|") != "one|two" || resp.Header.Get("X-C13-Ref") != "go-fcgi" || (resp.Header.Get("Content-Type") != "text/x-c13-ref" && sn.Status != 304) { // net/http/fcgi itself drops Content-Type on 304
		w.viol(k, "C13/reply-header", fmt.Sprintf("reference responder's header fields did not arrive intact: X-C13-Multi=%q X-C13-Ref=%q Content-Type=%q", g, resp.Header.Get("X-C13-Ref"), resp.Header.Get("Content-Type")), nil)
	}
	if k.Method != "HEAD" && (len(resp.Body) != sn.OutLen || sha(resp.Body) != sn.OutSHA) {
		w.viol(k, "C13/reply-body", fmt.Sprintf("reference responder wrote %d bytes (sha %s), client received %d bytes (sha %s)", sn.OutLen, sn.OutSHA, len(resp.Body), sha(resp.Body)), nil)
	}
	c.Count("ref_replies_compared", 1)
}

var hopOK = map[string]bool{"Server": true, "Date": true, "Content-Length": true, "Transfer-Encoding": true, "Connection": true}

func (w *world) judgeReply(k *kase, s *site, resp *lib.Resp, panicked bool, panicLine, tail string) {
	c := w.c
	rp := k.Reply
	if rp.WantStatus == 0 {
		c.Count("invalid_status_replies", 1)
		switch {
		case panicked:
			w.viol(k, "C13/status-out-of-range", fmt.Sprintf("responder sent 'Status: %s'; the handler panicked (%s) and the client got %v instead of a gateway error", rp.StatusVal, panicLine, respSummary(resp)),
				map[string]interface{}{"response": respSummary(resp), "error_log": clip(tail, 600)})
		case resp == nil || resp.Err != nil:
			w.viol(k, "C13/status-out-of-range", fmt.Sprintf("responder sent 'Status: %s'; the client got no well-formed response: %v", rp.StatusVal, respSummary(resp)), nil)
		case resp.Status < 500 || resp.Status > 599:
			w.viol(k, "C13/status-out-of-range", fmt.Sprintf("responder sent 'Status: %s'; the client got status %d, not a gateway error", rp.StatusVal, resp.Status), map[string]interface{}{"response": respSummary(resp)})
		default:
			c.Count("invalid_status_answered_with_gateway_error", 1)
		}
		return
	}
	if panicked {
		w.viol(k, "C13/handler-panic", "the fastcgi handler panicked while relaying a well-formed reply: "+panicLine, map[string]interface{}{"response": respSummary(resp), "error_log": clip(tail, 600)})
		return
	}
	if resp == nil || resp.Err != nil {
		w.viol(k, "C13/reply-unreadable", fmt.Sprintf("the responder's reply (status %d, body %d) did not reach the client as a well-formed response: %v", rp.WantStatus, rp.BodyLen, respSummary(resp)), nil)
		return
	}
	if resp.Status != rp.WantStatus {
		w.viol(k, "C13/reply-status", fmt.Sprintf("responder status %d (Status field present: %v, value %q), client received %d", rp.WantStatus, rp.HasStatus, rp.StatusVal, resp.Status), map[string]interface{}{"response": respSummary(resp)})
		return
	}
	want := http.Header{}
	for _, h := range rp.Hdrs {
		want.Add(h[0], h[1])
	}
	for n, v := range want {
		g := resp.Header[n]
		if n == "Content-Type" && rp.WantStatus == 304 {
			continue // a 304 carries no representation metadata (the HTTP server strips it)
		}
		if strings.Join(g, "\x00") != strings.Join(v, "\x00") {
			w.viol(k, "C13/reply-header", fmt.Sprintf("header field %s: responder sent %q, client received %q", n, clip(strings.Join(v, "|"), 200), clip(strings.Join(g, "|"), 200)), nil)
			break
		}
	}
	for n := range resp.Header {
		if _, ok := want[n]; ok || hopOK[n] {
			continue
		}
		if n == "Status" && rp.HasStatus {
			continue
		}
		if n == "Content-Type" && want.Get("Content-Type") == "" {
			continue
		}
		w.viol(k, "C13/reply-header-extra", fmt.Sprintf("client received header field %s=%q that the responder did not send", n, clip(strings.Join(resp.Header[n], "|"), 100)), nil)
		break
	}
	if rp.CL && k.Method != "HEAD" {
		if g := resp.Header.Get("Content-Length"); g != strconv.Itoa(rp.BodyLen) {
			w.viol(k, "C13/reply-header", fmt.Sprintf("responder sent Content-Length %d, client received %q", rp.BodyLen, g), nil)
		}
	}
	if k.Method != "HEAD" && !bytes.Equal(resp.Body, rp.body) {
		w.viol(k, "C13/reply-body", fmt.Sprintf("responder wrote a body of %d bytes in %d stdout records, client received %d bytes (first difference at offset %d)", len(rp.body), rp.NStdout, len(resp.Body), firstDiff(resp.Body, rp.body)),
			map[string]interface{}{"response": respSummary(resp)})
	}
	// stderr must not leak into the response
	if rp.Stderr != "" {
		leak := bytes.Contains(resp.Body, []byte("c13err-"))
		for _, v := range resp.Header {
			for _, x := range v {
				if strings.Contains(x, "c13err-") {
					leak = true
				}
			}
		}
		if leak {
			w.viol(k, "C13/stderr-in-response", "stderr bytes of the responder appear in the response sent to the client", map[string]interface{}{"response": respSummary(resp)})
		}
		if rp.Chunked {
			// a CGI reply that applies a transfer coding itself is outside
			// RFC 3875 (6.3.4); the gateway stops reading at the last chunk
			c.Count("chunked_reply_stderr_unjudged", 1)
			goto counted
		}
		w.mu.Lock()
		w.stderrEx = append(w.stderrEx, stderrExpect{N: k.N, Log: s.errLog, Text: strings.TrimSuffix(rp.Stderr, "\n"), Case: lib.JSON(k.describe())})
		w.mu.Unlock()
	}
counted:
	c.Max("max_padding_sent", int64(rp.MaxPad))
	c.Max("max_stdout_records", int64(rp.NStdout))
	if rp.NStderr > 0 {
		c.Count("replies_with_interleaved_stderr", 1)
	}
	if rp.ThinkMs > 0 {
		c.Count("replies_later_than_send_timeout", 1)
	}
	if rp.Burst > 0 {
		c.Count("replies_with_stderr_record_burst", 1)
		c.Max("max_consecutive_stderr_records", int64(rp.Burst))
	}
	if rp.NStdout > 1 {
		c.Count("replies_with_split_stdout", 1)
	}
	c.Count("scripted_replies_compared", 1)
}

// checkStderr runs after the instance has stopped: every stderr text must be
// in the error log of its site.
func (w *world) checkStderr() {
	logs := map[string]string{}
	for _, e := range w.stderrEx {
		if w.headBroken[e.N] {
			continue
		}
		l, ok := logs[e.Log]
		if !ok {
			b, _ := os.ReadFile(e.Log)
			l = string(b)
			logs[e.Log] = l
		}
		if strings.Contains(l, e.Text) {
			w.c.Count("stderr_texts_found_in_error_log", 1)
			continue
		}
		first := e.Text
		if i := strings.IndexByte(first, '\n'); i > 0 {
			first = first[:i]
		}
		w.c.Violation("C13/stderr-not-logged", fmt.Sprintf("the responder's stderr (%d bytes, first line %q) is not in the error log %s (first line present: %v)", len(e.Text), first, filepath.Base(e.Log), strings.Contains(l, first)),
			map[string]interface{}{"case": e.Case})
	}
}
