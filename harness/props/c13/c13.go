// Package c13: FastCGI requests and responses cross the wire intact.
//
// A real casket instance is configured with fastcgi rules that point at two
// responders living in the monitor process: Go's net/http/fcgi child (an
// independent, standard-conforming implementation) and a byte-level scripted
// responder that records the exact record stream it received and plays back
// an arbitrary framing of stdout/stderr. The oracle is written from the
// property statement (see oracle.go).
package c13

import (
	"bytes"
	"fmt"
	"os"
	"path/filepath"
	"strconv"
	"strings"
	"sync"
	"sync/atomic"
	"time"

	"github.com/tmpim/casket"
	"verifharness/lib"
)

func init() {
	lib.Register(&lib.Prop{ID: "C13", Level: "exploration", Run: run})
}

// site is one (worker, shape) virtual host.
type site struct {
	cfg    *cfgShape
	host   string
	errLog string
	logOff int64
}

type station struct {
	sc    *scripted
	ref   *goref
	sites []*site
	conn  *lib.Conn
}

type world struct {
	c      *lib.Ctx
	root   string
	tokens map[string]string
	front  string
	port   int

	mu         sync.Mutex
	stderrEx   []stderrExpect
	headBroken map[int]bool
}

type stderrExpect struct {
	N    int
	Log  string
	Text string
	Case string
}

func run(c *lib.Ctx) {
	c.Rule("each case is one HTTP exchange through a real casket site whose fastcgi rule (php preset or custom ext/split/index/env/except, 4 shapes) points at the net/http/fcgi reference child or at the byte-level scripted responder. Drawn per case: method (9), request path class (existing script in 3 letter cases, +path info, trailing dots/spaces, index resolution, missing names from a segment alphabet containing İ/K/Ⱥ whose lower-casing changes byte length, extension case variants, static, excepted), query, header multiset (name/value lengths 126..129, 255/256, 4000..8192, one pair at 65500-8 +/-2, 20..50 pairs crossing the 65500 flush threshold, repeated fields, obs-text), body {0,1,small,65499..65501,130999..131001,3x65500,1MiB+-1} as Content-Length or chunked, and for the scripted responder a reply (no/valid/invalid Status, CRLF or LF, 0..4 long headers, repeated fields, Content-Length/chunked, body 0..1MiB around 4096/65535/131072) framed by one of 5 cut strategies x 5 padding modes (0..255) with interleaved, multi-record and empty stderr records and segmented socket writes. Non-trivial = distinct (shape, method, feature set) with a non-empty feature set (a boundary, a non-plain path class or a non-plain framing is exercised)")
	c.Assume("a pair 'fits a single 65 500-byte record' when 8 + len(name) + len(value) <= 65500 (worst-case 8 length bytes); pairs above that are sent but not judged")
	c.Assume("case-insensitive occurrence of the split string is judged with ASCII letter folding on the original path bytes; split strings in the workload are ASCII without i/k/s so that every reasonable folding agrees")
	c.Assume("when the request path ends in dots or spaces both the trimmed and the untrimmed split are accepted; CONTENT_LENGTH is compared only when the request carried Content-Length; CONTENT_TYPE only when it carried Content-Type; HTTP_TRANSFER_ENCODING may or may not be present")
	c.Assume("Server, Date, Content-Length, Transfer-Encoding, Connection, a sniffed Content-Type (when the responder sent none) and an echoed Status field are the gateway's own hop and are not counted as extra response headers; reason phrases are not compared")
	c.Assume("responder statuses are drawn from 200..599 (1xx are not final CGI statuses); for a Status value that is not an HTTP status code the client must get a 5xx gateway error produced without a handler panic")
	c.Assume("the file system is case sensitive (Linux): 'existing file with the rule's extension in any letter case' is exercised with files whose names carry lower, upper and mixed case extensions")
	logs := lib.CaptureLog()
	_ = logs

	w := &world{c: c, root: filepath.Join(c.Dir, "root")}
	os.MkdirAll(w.root, 0o755)
	w.tokens = fixture(w.root)
	logDir := filepath.Join(c.Dir, "logs")
	os.MkdirAll(logDir, 0o755)

	workers := 16
	if v, err := strconv.Atoi(os.Getenv("C13_WORKERS")); err == nil && v > 0 {
		workers = v // debugging aid: a single worker executes the cases in order
	}
	total := c.Pick(10000, 400000)
	cfgs := shapes()
	var sts []*station
	for i := 0; i < workers; i++ {
		sts = append(sts, &station{sc: newScripted(), ref: newGoref()})
	}
	defer func() {
		for _, st := range sts {
			st.sc.close()
			st.ref.close()
		}
	}()

	var inst *casket.Instance
	for try := 0; ; try++ {
		w.port = lib.FreePort()
		w.front = fmt.Sprintf("127.0.0.1:%d", w.port)
		var cf strings.Builder
		for i, st := range sts {
			st.sites = nil
			for _, k := range cfgs {
				addr := st.sc.addr()
				if k.Ref {
					addr = st.ref.addr()
				}
				s := &site{cfg: k, host: fmt.Sprintf("k%dw%d.test", k.ID, i), errLog: filepath.Join(logDir, fmt.Sprintf("err-k%d-w%d.log", k.ID, i))}
				st.sites = append(st.sites, s)
				fmt.Fprintf(&cf, "http://%s:%d {\n bind 127.0.0.1\n root %s\n timeouts none\n errors %s\n%s}\n", s.host, w.port, w.root, s.errLog, k.block(addr))
			}
		}
		var err error
		inst, err = lib.Start(cf.String(), filepath.Join(c.Dir, "Casketfile"))
		if err == nil {
			os.WriteFile(filepath.Join(c.Dir, "Casketfile"), []byte(cf.String()), 0o644)
			break
		}
		if try < 5 && strings.Contains(err.Error(), "address already in use") {
			continue
		}
		c.Violation("harness/start", "cannot start the casket instance: "+err.Error(), cf.String())
		return
	}

	rng := c.Rng("c13-cases")
	seeds := make([]uint64, total)
	for i := range seeds {
		seeds[i] = rng.U64()
	}
	c.Set("rule_shapes", len(cfgs))

	var next int64 = -1
	var wg sync.WaitGroup
	for i := 0; i < workers; i++ {
		wg.Add(1)
		go func(i int) {
			defer wg.Done()
			st := sts[i]
			st.conn = &lib.Conn{Addr: w.front, Timeout: 180 * time.Second}
			defer st.conn.Close()
			for {
				n := int(atomic.AddInt64(&next, 1))
				if n >= total {
					return
				}
				// case n is a pure function of (run seed, n); the worker that
				// happens to execute it only decides which responder pair is used
				k := genCase(lib.NewRng(seeds[n]), n, cfgs, i)
				k.body = detBytes(k.BodyTag, k.BodyLen)
				w.runCase(k, st)
				k.body = nil
				if k.Reply != nil {
					k.Reply.body, k.Reply.sc = nil, nil
				}
			}
		}(i)
	}
	wg.Wait()
	var sconns int64
	for _, st := range sts {
		sconns += atomic.LoadInt64(&st.sc.conns)
	}
	c.Count("scripted_responder_connections", sconns)

	// every handler has returned after StopWait: the error logs are complete
	lib.StopWait(inst)
	w.checkStderr()
	earlyAnswers(c, w.root)
	c.Floor("early_answers_compared", 10)

	hitFloor := int64(total * 6 / 10)
	c.Floor("responder_hits", hitFloor)
	c.Floor("params_maps_compared", hitFloor/3)
	c.Floor("stdin_streams_compared", hitFloor/3)
	c.Floor("ref_requests_compared", int64(total/8))
	c.Floor("scripted_replies_compared", int64(total/6))
	c.Floor("stderr_texts_found_in_error_log", int64(total/25))
	c.Floor("required_routing_checked", int64(total/8))
	c.Floor("static_control_served", 3)
	c.Floor("bodies_at_record_boundary", int64(total/25))
	c.Floor("pairs_at_length_boundary", int64(total/40))
	c.Floor("multi_record_params", int64(total/60))
	c.Floor("fold_length_paths_judged", int64(total/20))
}

// logTail returns what was appended to the site's error log since the last call.
func (s *site) logTail() string {
	f, err := os.Open(s.errLog)
	if err != nil {
		return ""
	}
	defer f.Close()
	st, err := f.Stat()
	if err != nil || st.Size() <= s.logOff {
		return ""
	}
	b := make([]byte, st.Size()-s.logOff)
	n, _ := f.ReadAt(b, s.logOff)
	s.logOff += int64(n)
	return string(b[:n])
}

func escapeTarget(p string, raw bool) string {
	var b strings.Builder
	for i := 0; i < len(p); i++ {
		ch := p[i]
		switch {
		case ch >= 'a' && ch <= 'z', ch >= 'A' && ch <= 'Z', ch >= '0' && ch <= '9', ch == '/', ch == '.', ch == '-', ch == '_', ch == '~':
			b.WriteByte(ch)
		case ch >= 0x80 && raw:
			b.WriteByte(ch)
		default:
			fmt.Fprintf(&b, "%%%02X", ch)
		}
	}
	return b.String()
}

func (k *kase) render(host string) []byte {
	var b bytes.Buffer
	target := escapeTarget(k.Path, k.RawUTF8)
	if k.Query != "" {
		target += "?" + k.Query
	}
	fmt.Fprintf(&b, "%s %s HTTP/1.1\r\nHost: %s\r\n", k.Method, target, host)
	for _, h := range k.Hdrs {
		b.WriteString(h[0])
		b.WriteString(": ")
		b.WriteString(h[1])
		b.WriteString("\r\n")
	}
	if !k.HasBody {
		b.WriteString("\r\n")
		return b.Bytes()
	}
	if !k.Chunked {
		fmt.Fprintf(&b, "Content-Length: %d\r\n\r\n", len(k.body))
		b.Write(k.body)
		return b.Bytes()
	}
	b.WriteString("Transfer-Encoding: chunked\r\n\r\n")
	body := k.body
	for len(body) > 0 {
		n := k.ChunkSz
		if n > len(body) {
			n = len(body)
		}
		fmt.Fprintf(&b, "%x\r\n", n)
		b.Write(body[:n])
		b.WriteString("\r\n")
		body = body[n:]
	}
	b.WriteString("0\r\n\r\n")
	return b.Bytes()
}

func (w *world) runCase(k *kase, st *station) {
	c := w.c
	var s *site
	for _, x := range st.sites {
		if x.cfg == k.Cfg {
			s = x
		}
	}
	raw := k.render(s.host)
	rdesc := ""
	if k.Reply != nil {
		rdesc = fmt.Sprintf(" reply=status:%q/body:%d/cut:%s/pad:%s/seg:%d/stderr:%d", k.Reply.StatusVal, k.Reply.BodyLen, k.Reply.Cut, k.Reply.PadMode, k.Reply.Seg, len(k.Reply.Stderr))
	}
	c.Journal("C13 case %d cfg=%s %s %q?%s hdrs=%d body=%d chunked=%v%s feat=%v", k.N, k.Cfg.Name, k.Method, k.Path, k.Query, len(k.Hdrs), k.BodyLen, k.Chunked, rdesc, k.Feat)
	s.logTail() // late lines of earlier cases on this site are not this case's
	if k.Cfg.Ref {
		st.ref.reset()
	} else {
		st.sc.arm(k.Reply.sc)
	}
	var resp *lib.Resp
	var got []*received
	var seen []*refSeen
	for try := 0; ; try++ {
		resp = st.conn.Do(k.Method, raw)
		if k.Cfg.Ref {
			seen = st.ref.take()
		} else {
			got = st.sc.take()
		}
		// a server may close an idle keep-alive connection at any time: when
		// the exchange died before any response byte and nothing reached the
		// responder, the request is repeated once on a fresh connection
		if resp.Err != nil && resp.Status == 0 && len(got)+len(seen) == 0 && try == 0 && !strings.Contains(resp.Err.Error(), "malformed") {
			c.Count("client_retries_on_fresh_connection", 1)
			st.conn.Close()
			if !k.Cfg.Ref {
				st.sc.arm(k.Reply.sc)
			}
			continue
		}
		break
	}
	tail := s.logTail()
	c.Eval(1)
	if len(k.Feat) > 0 {
		c.Nontrivial(fmt.Sprintf("%s|%s|%s", k.Cfg.Name, k.Method, strings.Join(k.Feat, ",")))
	}
	c.SampleTag(k.Cfg.Name, 2, k.describe())
	w.judge(k, s, resp, got, seen, tail)
	if k.Method == "HEAD" && resp.Err == nil {
		w.headSentinel(k, s, st, len(got)+len(seen) > 0)
	}
	if resp.Err != nil {
		// make sure the next case starts on a clean connection
		st.conn.Close()
	}
}

func (k *kase) describe() map[string]interface{} {
	hs := [][2]string{}
	for _, h := range k.Hdrs {
		v := h[1]
		if len(v) > 80 {
			v = fmt.Sprintf("%s...(%d bytes)", v[:60], len(v))
		}
		n := h[0]
		if len(n) > 80 {
			n = fmt.Sprintf("%s...(%d bytes)", n[:60], len(n))
		}
		hs = append(hs, [2]string{n, v})
		if len(hs) >= 12 {
			hs = append(hs, [2]string{"...", fmt.Sprintf("%d fields in total", len(k.Hdrs))})
			break
		}
	}
	m := map[string]interface{}{
		"case": k.N, "rule": k.Cfg.block("<responder>"), "method": k.Method, "path": k.Path, "path_class": k.PathClass,
		"raw_utf8_target": k.RawUTF8, "query": k.Query, "headers": hs, "body_len": k.BodyLen, "body_tag": k.BodyTag,
		"chunked": k.Chunked, "chunk_size": k.ChunkSz, "features": k.Feat,
	}
	if rp := k.Reply; rp != nil {
		rh := [][2]string{}
		for _, h := range rp.Hdrs {
			v := h[1]
			if len(v) > 80 {
				v = fmt.Sprintf("%s...(%d bytes)", v[:60], len(v))
			}
			rh = append(rh, [2]string{h[0], v})
		}
		se := rp.Stderr
		if len(se) > 200 {
			se = fmt.Sprintf("%s...(%d bytes)", se[:150], len(se))
		}
		m["reply"] = map[string]interface{}{
			"status_field": rp.StatusVal, "has_status": rp.HasStatus, "headers": rh, "content_length": rp.CL, "chunked": rp.Chunked,
			"eol": rp.EOL, "body_len": rp.BodyLen, "body_tag": rp.BodyTag, "stderr": se, "cut": rp.Cut, "padding": rp.PadMode,
			"segment": rp.Seg, "stdout_records": rp.NStdout, "stderr_records": rp.NStderr, "max_padding": rp.MaxPad,
		}
	}
	return m
}

// headSentinel: a HEAD exchange must leave the connection in a state where
// the next response is readable. The sentinel is a static file of the same
// site requested on the same keep-alive connection.
func (w *world) headSentinel(k *kase, s *site, st *station, hit bool) {
	want, _ := os.ReadFile(filepath.Join(w.root, "style.css"))
	r2 := st.conn.Do("GET", lib.BuildReq("GET", "/style.css", s.host, nil))
	w.c.Count("head_sentinels", 1)
	if r2.Err == nil && r2.Status == 200 && bytes.Equal(r2.Body, want) {
		return
	}
	st.conn.Close()
	w.mu.Lock()
	if w.headBroken == nil {
		w.headBroken = map[int]bool{}
	}
	w.headBroken[k.N] = true // the relay was cut short by our own close: its stderr is not judged
	w.mu.Unlock()
	if !hit {
		return
	}
	w.viol(k, "C13/head-reply-body-on-wire", fmt.Sprintf("after the HEAD exchange (responder sent a body, which RFC 3875 4.3.3 obliges the server to discard) the next response on the same connection is corrupted: GET /style.css -> %v", respSummary(r2)), nil)
}
