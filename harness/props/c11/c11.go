// Package c11: every directive's setup is total (error or success, never a
// panic, hang or deadlock) and validation agrees with a real start on whether
// the directives are accepted.
//
// The parent process generates configurations from a vocabulary scraped from
// the repository sources at run time and owns the oracle; all casket code runs
// in child processes (`vh sub C11 batch|start`) that are chroot-ed into a small
// fixture directory and write a write-ahead journal.
package c11

import (
	"bufio"
	"crypto/sha1"
	"encoding/base64"
	"encoding/json"
	"fmt"
	"net"
	"os"
	"os/exec"
	"path/filepath"
	"regexp"
	"runtime"
	"sort"
	"strings"
	"sync"
	"sync/atomic"
	"syscall"
	"time"

	"verifharness/lib"
)

func init() {
	lib.Register(&lib.Prop{ID: "C11", Level: "exploration", Run: run,
		Sub: map[string]func([]string) int{"batch": subBatch, "start": subStart}})
}

const (
	batchSize      = 1000 // cases per child; each is loaded twice (~2000 loads, see DESIGN 0.2)
	startBatchSize = 40
)

type monitor struct {
	c       *lib.Ctx
	fix     string
	sandbox bool
	b       budget
	sem     chan struct{} // bounds concurrently running children

	tParkMs atomic.Int64

	mu         sync.Mutex
	deadlocks  map[string]int // key -> confirmed count
	perDirAcc  map[string]int
	perDirRej  map[string]int
	nOutcomes  int
	notes      int
	harnessErr int
	viol       map[string]*violBucket
	samples    map[string][]sampleCand
	reps       map[string][]*Case // representatives per directive for phase 4
}

// violBucket: verdicts are reached in worker goroutines; they are reported at
// the end, the witnesses with the smallest case ids first, so that the replay
// files written do not depend on scheduling.
type violBucket struct {
	n    int
	best []deferredViolation
}

type deferredViolation struct {
	rank      int // 0 = fully attributed witness, 1 = weaker witness
	id        int
	key, what string
	witness   interface{}
}

type sampleCand struct {
	id int
	v  interface{}
}

func (m *monitor) deferViolation(id int, key, what string, witness interface{}) {
	m.deferViolationRank(0, id, key, what, witness)
}

func (m *monitor) deferViolationRank(rank, id int, key, what string, witness interface{}) {
	m.mu.Lock()
	defer m.mu.Unlock()
	b := m.viol[key]
	if b == nil {
		b = &violBucket{}
		m.viol[key] = b
	}
	b.n++
	b.best = append(b.best, deferredViolation{rank, id, key, what, witness})
	sort.Slice(b.best, func(i, j int) bool {
		if b.best[i].rank != b.best[j].rank {
			return b.best[i].rank < b.best[j].rank
		}
		return b.best[i].id < b.best[j].id
	})
	if len(b.best) > 3 {
		b.best = b.best[:3]
	}
}

func (m *monitor) flushViolations() {
	var keys []string
	for k := range m.viol {
		keys = append(keys, k)
	}
	sort.Strings(keys)
	for _, k := range keys {
		b := m.viol[k]
		for _, v := range b.best {
			m.c.Violation(v.key, v.what, v.witness)
		}
		for i := len(b.best); i < b.n; i++ {
			m.c.Violation(k, b.best[0].what, nil) // counted; no further replay files for this key
		}
	}
}

func (m *monitor) sample(tag string, n, id int, v interface{}) {
	m.mu.Lock()
	defer m.mu.Unlock()
	s := append(m.samples[tag], sampleCand{id, v})
	sort.Slice(s, func(i, j int) bool { return mix(s[i].id) < mix(s[j].id) })
	if len(s) > n {
		s = s[:n]
	}
	m.samples[tag] = s
}

func mix(id int) uint64 {
	z := uint64(id)*0x9E3779B97F4A7C15 + 0x1234567
	z = (z ^ (z >> 30)) * 0xBF58476D1CE4E5B9
	z = (z ^ (z >> 27)) * 0x94D049BB133111EB
	return z ^ (z >> 31)
}

func (m *monitor) flushSamples() {
	var tags []string
	for t := range m.samples {
		tags = append(tags, t)
	}
	sort.Strings(tags)
	for _, t := range tags {
		for _, s := range m.samples[t] {
			m.c.SampleTag(t, len(m.samples[t]), s.v)
		}
	}
}

func run(c *lib.Ctx) {
	c.Rule("configurations `127.0.0.1:<p> { <directive> <args...> [ { <kw> <args...> ... } ] }` for every directive of the http server type that has a plugin registered; " +
		"tokens from fixed lexical classes plus a per-directive vocabulary scraped from the repository sources at run time; phase 1 head arguments (arity 0-4), " +
		"phase 2 one-line sub-blocks under the empty head and heads accepted in phase 1, phase 3 two-line sub-blocks from lines accepted in phase 2; every case is " +
		"loaded twice in the same child; a stratified sample is additionally validated and really started. non-trivial = distinct directive text whose outcome was decided by the " +
		"directive's setup (accepted, or rejected with an error that is not a Casketfile parser error), plus distinct validate-vs-start comparisons")
	m := &monitor{c: c, deadlocks: map[string]int{}, perDirAcc: map[string]int{}, perDirRej: map[string]int{},
		viol: map[string]*violBucket{}, samples: map[string][]sampleCand{}, reps: map[string][]*Case{}}
	m.tParkMs.Store(1500)
	defer c.Floor("accepted_proxy_blocks_naming_a_peer_with_health_check", 5)
	defer m.flushSamples()
	defer m.flushViolations()

	root := repoRoot()
	vocabs, shared, err := scrapeRepo(root)
	if err != nil {
		fmt.Printf("BROKEN-RUN property=C11 cannot scrape vocabulary from %s: %v\n", root, err)
		c.Count("broken_floor", 1)
		return
	}
	c.Set("repo_scraped", root)
	c.Count("shared_parser_files_scraped", int64(shared))
	dirs := registeredDirectives()
	c.Count("directives", int64(len(dirs)))
	c.Set("directive_list", dirs)

	m.sandbox = os.Geteuid() == 0 // root always gets the chroot: never load generated arguments as root outside it
	if err := m.makeFixture(); err != nil {
		fmt.Printf("BROKEN-RUN property=C11 fixture: %v\n", err)
		c.Count("broken_floor", 1)
		return
	}
	if !m.sandbox {
		c.Assume("not running as root: children are not chroot-ed, so the lexical class `/` is left out and path arguments are absolute paths into the fixture directory")
	}
	lx := lexClasses(m.sandbox, m.fix)
	m.b = budgets(c)

	// the silent peer: takes connections, never answers, never hangs up. The
	// second validate load of every case names it wherever the first names a
	// closed port.
	if sl, err := net.Listen("tcp", fmt.Sprintf("127.0.0.1:%d", lib.FreePort())); err == nil {
		defer sl.Close()
		os.Setenv("VERIF_C11_SILENT", fmt.Sprint(sl.Addr().(*net.TCPAddr).Port))
		var held []net.Conn
		var hmu sync.Mutex
		go func() {
			for {
				cn, err := sl.Accept()
				if err != nil {
					return
				}
				c.Count("silent_peer_connections", 1)
				hmu.Lock()
				held = append(held, cn)
				hmu.Unlock()
			}
		}()
		c.Count("silent_peer_connections", 0)
	} else {
		c.Assume("no silent peer could be set up: " + err.Error())
	}

	var dvs []*dirVocab
	vocSizes := map[string]int{}
	for _, d := range dirs {
		v := vocabs[d]
		if v == nil {
			fmt.Printf("NOTE property=C11 no source package found for directive %q (only lexical classes used)\n", d)
			c.Count("directives_without_scraped_vocabulary", 1)
		} else {
			c.Count("keywords_scraped", int64(len(v.Keywords)))
			c.Count("prefixes_scraped", int64(len(v.Prefixes)))
		}
		dv := buildVocab(d, v, lx)
		vocSizes[d] = len(dv.V)
		dvs = append(dvs, dv)
	}
	c.Set("vocabulary_size_per_directive", vocSizes)

	workers := runtime.NumCPU()
	if workers > 14 {
		workers = 14
	}
	if workers < 2 {
		workers = 2
	}
	m.sem = make(chan struct{}, workers)

	// one pipeline per directive (phase 1 -> 2 -> 3 -> agreement sample); a few
	// pipelines at a time bound the memory, the semaphore bounds the children.
	pipes := make(chan struct{}, c.Pick(len(dvs)+1, 6))
	var wg sync.WaitGroup
	for i, dv := range dvs {
		wg.Add(1)
		pipes <- struct{}{}
		go func(i int, dv *dirVocab) {
			defer wg.Done()
			defer func() { <-pipes }()
			m.pipeline(i, dv)
		}(i, dv)
	}
	wg.Wait()
	m.crossPhase(dirs)

	// ---- floors: the run must have exercised every directive both ways
	okBoth := 0
	for _, d := range dirs {
		if m.perDirAcc[d] > 0 && m.perDirRej[d] > 0 {
			okBoth++
		} else {
			fmt.Printf("NOTE property=C11 directive %q: accepted=%d rejected=%d\n", d, m.perDirAcc[d], m.perDirRej[d])
		}
	}
	c.Count("directives_with_accepted_and_rejected_cases", int64(okBoth))
	c.Count("distinct_outcome_classes", int64(m.nOutcomes))
	c.Floor("directives", 20)
	c.Floor("directives_with_accepted_and_rejected_cases", int64(len(dirs)))
	c.Floor("keywords_scraped", 100)
	c.Floor("start_cases_compared", int64(len(dirs)))
	c.Floor("start_really_started", 10)
	if m.harnessErr > 0 {
		fmt.Printf("BROKEN-RUN property=C11 %d child batches ended in a way the harness could not attribute\n", m.harnessErr)
		c.Count("broken_floor", 1)
	}
	c.Assume("hosts are 127.0.0.1:<port>: no site qualifies for automatic HTTPS, so no ACME traffic is attempted; tls { dns ... } providers are not registered in this binary")
	c.Assume("vocabulary words RSA4096/RSA8192 are left out (minutes of key generation per load would be read as a stall); key_type is exercised with the other key types")
	c.Assume("agreement is judged on directive acceptance (a parsing callback registered after the directive fires during casket.Start), not on later start stages (MakeServers, startup hooks, listening), which -validate never runs")
	c.Assume("a non-return is a violation only when the goroutine dump shows the loading goroutine parked in a lock/channel below a casket frame; a CPU-bound non-return stays inconclusive")
	c.Assume("children run chroot-ed into a read-only fixture directory as uid 65534 with an empty PATH: commands of `on`/`websocket` cannot be executed and log files cannot be created; such failures happen after directive acceptance and are not judged")
}

// dirState is the per-directive bookkeeping of one pipeline.
type dirState struct {
	name     string
	base     int
	seq      int
	mu       sync.Mutex
	acc      map[int]bool
	outcomes map[string][]int // outcome class -> case ids
	keyDep   map[string][]int // rejected with a message naming the site address, by outcome class
	differs  []int            // the second, identical validation ended differently from the first
}

func (ds *dirState) number(cs []*Case) []*Case {
	for _, k := range cs {
		k.ID = ds.base + ds.seq
		ds.seq++
	}
	return cs
}

func (m *monitor) pipeline(idx int, dv *dirVocab) {
	c := m.c
	ds := &dirState{name: dv.name, base: (idx + 1) * 10_000_000, acc: map[int]bool{}, outcomes: map[string][]int{}}
	judge := func(k *Case, r *caseRes) { m.judgeOne(ds, k, r) }

	p1 := ds.number(genPhase1(c, dv, m.b))
	m.runAll(dv.name+"-p1", "batch", p1, judge)

	heads := pickHeads(p1, ds.acc, m.b.p2heads)
	// for directives that accept a network peer among their arguments: the
	// peer under every URL scheme casket knows a transport for (the scheme
	// decides which transport the setup builds and configures)
	namesPeer := false
	for _, k := range p1 {
		if ds.acc[k.ID] && !k.Block && strings.Contains(strings.Join(k.Args, " "), "127.0.0.1:1") {
			namesPeer = true
		}
	}
	if namesPeer {
		for _, sch := range []string{"https://", "quic://", "srv://", "srv+https://", "unix:/"} {
			heads = append(heads, []string{"/", sch + "127.0.0.1:1"})
		}
		c.Count("directives_with_peer_scheme_heads", 1)
	}
	p2 := ds.number(genPhase2(c, dv, heads, m.b))
	m.runAll(dv.name+"-p2", "batch", p2, judge)

	p3 := ds.number(genPhase3(c, dv, p2, ds.acc, m.b))
	m.runAll(dv.name+"-p3", "batch", p3, judge)

	byID := map[int]*Case{}
	for _, l := range [][]*Case{p1, p2, p3} {
		for _, k := range l {
			byID[k.ID] = k
		}
	}
	var startCases []*Case
	// first the cases that have to be there: the ones marked so when they
	// were generated, and (up to eight) whose second identical validation did
	// not end like the first - what a load leaves behind in the process
	// matters for them, and a start is a load
	var first []*Case
	inFirst := map[int]bool{}
	for _, k := range append(append(append([]*Case(nil), p1...), p2...), p3...) {
		if k.MustStart {
			first = append(first, k)
			inFirst[k.ID] = true
		}
	}
	sort.Ints(ds.differs)
	for i, id := range ds.differs {
		if k := byID[id]; k != nil && i < 8 && !inFirst[id] {
			first = append(first, k)
			inFirst[id] = true
		}
	}
	c.Count("start_cases_always_included", int64(len(first)))
	for _, k := range m.stratifiedSample(ds, byID, m.b.startPer) {
		if !inFirst[k.ID] {
			first = append(first, k)
		}
	}
	for _, k := range first {
		kk := *k
		startCases = append(startCases, &kk)
		// two-key site blocks: every tls case, a quarter of the others
		if dv.name == "tls" || mix(k.ID)%4 == 0 {
			for keys := 1; keys <= 2; keys++ {
				kk := *k
				kk.Keys = keys
				startCases = append(startCases, &kk)
			}
		}
	}
	// cases rejected with a message naming the site address, under two-key blocks
	var keyDep []int
	for oc, ids := range ds.keyDep {
		// a few of every kind of such message: the two shortest spellings
		// (least else to go wrong in them) and some others
		size := func(id int) int {
			k := byID[id]
			if k == nil {
				return 1 << 20
			}
			n := len(k.Args)
			for _, l := range k.Lines {
				n += len(l)
			}
			return n
		}
		sort.Slice(ids, func(i, j int) bool {
			if a, b := size(ids[i]), size(ids[j]); a != b {
				return a < b
			}
			return mix(ids[i]) < mix(ids[j])
		})
		_ = oc
		if len(ids) > 2 {
			rest := ids[2:]
			sort.Slice(rest, func(i, j int) bool { return mix(rest[i]) < mix(rest[j]) })
		}
		if len(ids) > 6 {
			ids = ids[:6]
		}
		keyDep = append(keyDep, ids...)
	}
	sort.Ints(keyDep)
	for i, id := range keyDep {
		if i >= m.b.startPer {
			break
		}
		if k := byID[id]; k != nil {
			for keys := 1; keys <= 2; keys++ {
				kk := *k
				kk.Keys = keys
				startCases = append(startCases, &kk)
			}
			c.Count("start_cases_key_dependent_verdict", 1)
			m.sample("key-dependent-verdict/"+dv.name, 2, k.ID, oneLine(k.Key()))
		}
	}
	ds.number(startCases)
	m.runAll(dv.name+"-start", "start", startCases, func(k *Case, r *caseRes) { m.judgeStartOne(k, r) })

	// representatives for the cross-directive phase: accepted cases (one of
	// them with a sub-block if there is any) and rejected ones, chosen by a
	// hash of the case id
	var accIDs, rejIDs []int
	for oc, ids := range ds.outcomes {
		if oc == "ACCEPT" {
			accIDs = append(accIDs, ids...)
		} else {
			rejIDs = append(rejIDs, ids...)
		}
	}
	byMix := func(ids []int) {
		sort.Slice(ids, func(i, j int) bool { return mix(ids[i]) < mix(ids[j]) })
	}
	byMix(accIDs)
	byMix(rejIDs)
	var reps []*Case
	for _, id := range accIDs {
		if k := byID[id]; k != nil && len(k.Lines) > 0 {
			reps = append(reps, k)
			break
		}
	}
	for _, id := range accIDs {
		if len(reps) >= m.b.crossAcc {
			break
		}
		if k := byID[id]; k != nil && (len(reps) == 0 || k != reps[0]) {
			reps = append(reps, k)
		}
	}
	for i, id := range rejIDs {
		if i >= m.b.crossRej {
			break
		}
		if k := byID[id]; k != nil {
			reps = append(reps, k)
		}
	}
	m.mu.Lock()
	m.reps[dv.name] = reps
	m.nOutcomes += len(ds.outcomes)
	m.mu.Unlock()
}

// crossPhase loads site blocks holding two different directives.
func (m *monitor) crossPhase(dirs []string) {
	c := m.c
	cases := genCross(c, dirs, m.reps)
	for i, k := range cases {
		k.ID = 900_000_000 + i
	}
	var mu sync.Mutex
	accN := map[bool][]*Case{}
	m.runAll("cross", "batch", cases, func(k *Case, r *caseRes) {
		if r == nil || len(r.Runs) < 2 {
			return
		}
		c.Eval(1)
		c.Count("loads", 2)
		c.Count("cross_directive_cases", 1)
		if p := anyPanic(r.Runs); p != nil {
			c.Count("panics", 1)
			c.Nontrivial(k.Key())
			m.deferViolation(k.ID, "C11/panic/"+r.PanicSig, fmt.Sprintf("setup of `%s` panics: %s", oneLine(k.Key()), p.Panic),
				map[string]interface{}{"casketfile": k.Text("127.0.0.1:2015"), "minimal_casketfile": r.MinText, "panic": p.Panic, "stack": p.Stack,
					"call": "casket.ValidateAndExecuteDirectives(input, nil, true)"})
			return
		}
		if r.Runs[0].Acc != r.Runs[1].Acc {
			c.Count("second_load_outcome_differs", 1)
		}
		c.Nontrivial(k.Key())
		if r.Runs[0].Acc {
			c.Count("cross_accepted", 1)
			m.sample("accepted-two-directives", 2, k.ID, oneLine(k.Key()))
		}
		mu.Lock()
		accN[r.Runs[0].Acc] = append(accN[r.Runs[0].Acc], k)
		mu.Unlock()
	})
	// agreement on a sample: all-accepted combinations are the interesting
	// ones (parsing callbacks run between directives only in a real start)
	var sample []*Case
	for _, acc := range []bool{true, false} {
		l := accN[acc]
		sort.Slice(l, func(i, j int) bool { return mix(l[i].ID) < mix(l[j].ID) })
		n := m.b.crossStart * 2 / 3
		if !acc {
			n = m.b.crossStart - len(sample)
		}
		if n > len(l) {
			n = len(l)
		}
		for _, k := range l[:n] {
			kk := *k
			kk.ID = k.ID + 50_000_000
			sample = append(sample, &kk)
		}
	}
	m.runAll("cross-start", "start", sample, func(k *Case, r *caseRes) { m.judgeStartOne(k, r) })
}

// makeFixture builds the small directory the children are confined to.
func (m *monitor) makeFixture() error {
	m.fix = filepath.Join(m.c.Dir, "fix")
	// a read-only fixture left by an earlier non-root run: make it writable and start over
	filepath.Walk(m.fix, func(p string, info os.FileInfo, err error) error {
		if err == nil && info.IsDir() {
			os.Chmod(p, 0o755)
		}
		return nil
	})
	os.RemoveAll(m.fix)
	for _, d := range []string{"", "d", "certs", "certs2"} {
		if err := os.MkdirAll(filepath.Join(m.fix, d), 0o755); err != nil {
			return err
		}
	}
	w := func(name string, b []byte) { os.WriteFile(filepath.Join(m.fix, name), b, 0o644) }
	w("ok.txt", []byte("hello\n"))
	w("index.html", []byte("<html>{{.Host}}</html>\n"))
	w("tpl.html", []byte("<html>{{.Doc.body}}</html>\n"))
	w("garbage.bin", lib.DetBody(11, 300))
	w("d/a.txt", []byte("a\n"))
	w("d/g.pem", []byte("-----BEGIN GARBAGE-----\nAAAA\n-----END GARBAGE-----\n"))
	h := sha1.Sum([]byte("p"))
	w("ht.txt", []byte("# users\np:{SHA}"+base64.StdEncoding.EncodeToString(h[:])+"\nother:plain\n"))
	// a well-formed user line followed by a malformed one
	w("htbad.txt", []byte("p:{SHA}"+base64.StdEncoding.EncodeToString(h[:])+"\nno-separator-on-this-line\n"))
	cp, kp, _ := lib.MintCert(m.fix, "c", []string{"127.0.0.1"})
	cb, _ := os.ReadFile(cp)
	kb, _ := os.ReadFile(kp)
	os.Chmod(kp, 0o644)
	w("certs/ok.pem", append(cb, kb...))
	// a directory of damaged bundles: truncated after the EC parameters, parameters
	// only, certificate only, key only, a block cut in the middle, an empty file
	ecParams := []byte("-----BEGIN EC PARAMETERS-----\nBggqhkjOPQMBBw==\n-----END EC PARAMETERS-----\n")
	w("certs2/a-cert-then-params.pem", append(append([]byte{}, cb...), ecParams...))
	w("certs2/b-params-only.pem", ecParams)
	w("certs2/c-cert-only.pem", cb)
	w("certs2/d-key-only.pem", kb)
	w("certs2/e-cut.pem", cb[:len(cb)/2])
	w("certs2/f-empty.pem", nil)
	w("certs2/g-params-then-garbage.pem", append(append([]byte{}, ecParams...), []byte("-----BEGIN GARBAGE-----\nAAAA\n-----END GARBAGE-----\n")...))
	// world-readable, not writable by the unprivileged uid of the children
	return filepath.Walk(m.fix, func(p string, info os.FileInfo, err error) error {
		if err != nil {
			return err
		}
		if info.IsDir() {
			if !m.sandbox {
				return os.Chmod(p, 0o555) // not root: keep loads from creating files in it
			}
			return os.Chmod(p, 0o755)
		}
		return os.Chmod(p, 0o644)
	})
}

// ---- running batches ---------------------------------------------------------

type outParse struct {
	results  []*caseRes
	partial  map[int][]runRes
	pendID   int
	pendRun  int
	pending  bool
	stall    string
	restart  bool
	done     bool
	lastLine string
}

func parseOut(path string) *outParse {
	o := &outParse{partial: map[int][]runRes{}}
	f, err := os.Open(path)
	if err != nil {
		return o
	}
	defer f.Close()
	sc := bufio.NewScanner(f)
	sc.Buffer(make([]byte, 1<<20), 16<<20)
	for sc.Scan() {
		l := sc.Text()
		o.lastLine = l
		switch {
		case strings.HasPrefix(l, "B "):
			fmt.Sscanf(l, "B %d %d", &o.pendID, &o.pendRun)
			o.pending = true
		case strings.HasPrefix(l, "R "):
			rest := l[2:]
			if i := strings.IndexByte(rest, ' '); i > 0 {
				var r caseRes
				if json.Unmarshal([]byte(rest[i+1:]), &r) == nil {
					o.results = append(o.results, &r)
				}
			}
			o.pending = false
		case strings.HasPrefix(l, "P "):
			rest := l[2:]
			var id, run int
			fmt.Sscanf(rest, "%d %d", &id, &run)
			if i := strings.Index(rest, "{"); i > 0 {
				var r runRes
				if json.Unmarshal([]byte(rest[i:]), &r) == nil {
					o.partial[id] = append(o.partial[id], r)
				}
			}
		case strings.HasPrefix(l, "S "):
			o.stall = l[2:]
		case l == "RESTART":
			o.restart = true
		case l == "DONE":
			o.done = true
		}
	}
	return o
}

func (m *monitor) runAll(phase, mode string, cases []*Case, judge func(*Case, *caseRes)) {
	if len(cases) == 0 {
		return
	}
	c := m.c
	// deterministic shuffle: spreads expensive cases (deadlocks) over children
	perm := c.Rng("c11/shuffle/" + phase).Perm(len(cases))
	sh := make([]*Case, len(cases))
	for i, p := range perm {
		sh[i] = cases[p]
	}
	size := c.Pick(400, batchSize)
	if mode == "start" {
		size = startBatchSize
		// the start phase keeps its order: the cases that have to be there come
		// first, each one before anything else in its process has touched the
		// files and caches it is about
		copy(sh, cases)
	}
	var wg sync.WaitGroup
	bi := 0
	for i := 0; i < len(sh); i += size {
		j := i + size
		if j > len(sh) {
			j = len(sh)
		}
		batch := sh[i:j]
		tag := fmt.Sprintf("%s-%d", phase, bi)
		bi++
		wg.Add(1)
		m.sem <- struct{}{}
		go func() {
			defer wg.Done()
			defer func() { <-m.sem }()
			m.runBatch(tag, mode, batch, judge)
		}()
	}
	wg.Wait()
	c.Count("child_batches_"+mode, int64(bi))
}

func (m *monitor) subArgs(in, out string, tPark, tMax, linger int64) []string {
	sb := "0"
	if m.sandbox {
		sb = "1"
	}
	return []string{in, out, m.fix, sb, fmt.Sprint(tPark), fmt.Sprint(tMax), fmt.Sprint(linger)}
}

// runChild runs the cases in one child and returns the parsed journal.
func (m *monitor) runChild(tag, mode string, cases []*Case, tPark, tMax int64) (*outParse, *lib.SubResult) {
	return m.runChildLinger(tag, mode, cases, tPark, tMax, 20)
}

// hasCrash reports whether the child died through a Go panic / fatal error
// (possibly in a goroutine a setup had started) and returns the first casket
// frame of the crashing stack.
func hasCrash(res *lib.SubResult) (bool, string, string) {
	if res.Code == 0 {
		return false, "", ""
	}
	dump := readDump(res.StderrPath)
	if !(strings.Contains(dump, "\npanic:") || strings.Contains(dump, "\nfatal error:") || strings.HasPrefix(dump, "panic:") || strings.HasPrefix(dump, "fatal error:")) {
		return false, "", ""
	}
	_, fr, tail := res.Crash()
	if fr == "" {
		fr = "unknown"
	}
	return true, frameName(fr), tail
}

// sub runs `vh sub C11 <mode> args...` like lib.Ctx.Sub, but with a stderr file
// named after the (unique) tag: children of this monitor run concurrently.
func (m *monitor) sub(tag, mode string, args []string, timeout time.Duration) *lib.SubResult {
	errPath := filepath.Join(m.c.Dir, tag+".stderr")
	res := &lib.SubResult{StderrPath: errPath}
	errf, err := os.Create(errPath)
	if err != nil {
		res.Code = 3
		return res
	}
	defer errf.Close()
	cmd := exec.Command(lib.Self, append([]string{"sub", m.c.ID, mode}, args...)...)
	cmd.Stdin = nil
	cmd.Stdout = errf
	cmd.Stderr = errf
	cmd.SysProcAttr = &syscall.SysProcAttr{Setpgid: true}
	t0 := time.Now()
	if err := cmd.Start(); err != nil {
		res.Code = 3
		return res
	}
	m.c.Count("children_started", 1)
	done := make(chan error, 1)
	go func() { done <- cmd.Wait() }()
	var werr error
	select {
	case werr = <-done:
	case <-time.After(timeout):
		res.TimedOut = true
		cmd.Process.Signal(syscall.SIGQUIT)
		select {
		case werr = <-done:
		case <-time.After(15 * time.Second):
			syscall.Kill(-cmd.Process.Pid, syscall.SIGKILL)
			werr = <-done
		}
	}
	syscall.Kill(-cmd.Process.Pid, syscall.SIGKILL)
	res.Wall = time.Since(t0)
	if werr != nil {
		if ee, ok := werr.(*exec.ExitError); ok {
			res.Code = ee.ExitCode()
			if ws, ok := ee.Sys().(syscall.WaitStatus); ok && ws.Signaled() {
				res.Signaled = true
			}
		} else {
			res.Code = 3
		}
	}
	return res
}

func (m *monitor) runChildLinger(tag, mode string, cases []*Case, tPark, tMax, linger int64) (*outParse, *lib.SubResult) {
	in := filepath.Join(m.c.Dir, tag+".in.json")
	out := filepath.Join(m.c.Dir, tag+".out")
	b, _ := json.Marshal(cases)
	os.WriteFile(in, b, 0o644)
	os.Remove(out)
	m.c.Journal("C11 %s child %s: %d cases, first id=%d %s", mode, tag, len(cases), cases[0].ID, cases[0].Directive())
	// the outer watchdog is only a backstop for the in-child progress monitor
	res := m.sub(tag, mode, m.subArgs(in, out, tPark, tMax, linger), time.Duration(tMax)*time.Millisecond*4+20*time.Minute)
	o := parseOut(out)
	if os.Getenv("C11_KEEP") == "" {
		os.Remove(in)
	}
	if (o.done || o.restart) && res.Code == 0 {
		os.Remove(out)
	}
	return o, res
}

func (m *monitor) runBatch(tag, mode string, batch []*Case, judge func(*Case, *caseRes)) {
	c := m.c
	rem := batch
	for attempt := 0; len(rem) > 0; attempt++ {
		if attempt > len(batch)+3 {
			m.harness("batch %s does not make progress", tag)
			return
		}
		o, res := m.runChild(fmt.Sprintf("%s-a%d", tag, attempt), mode, rem, m.tParkMs.Load(), 30000)
		n := len(o.results)
		// results come in batch order
		for i := 0; i < n && i < len(rem); i++ {
			if o.results[i].ID != rem[i].ID {
				m.harness("batch %s: result order mismatch", tag)
				return
			}
			judge(rem[i], o.results[i])
		}
		if crashed, frame, tail := hasCrash(res); crashed {
			upto := n
			if o.pending && n < len(rem) && o.pendID == rem[n].ID {
				upto = n + 1
			}
			m.crash(tag, mode, rem[:upto], o, res, frame, tail, judge)
			if n >= len(rem) {
				return
			}
			rem = rem[upto:]
			continue
		}
		if (o.done || o.restart) && res.Code == 0 {
			os.Remove(res.StderrPath) // log noise of a child that ended normally
		}
		if o.done || n >= len(rem) {
			return
		}
		if o.restart {
			c.Count("child_restarts_after_panic", 1)
			rem = rem[n:]
			continue
		}
		k := rem[n]
		if !o.pending || o.pendID != k.ID {
			m.harness("batch %s: child ended (code %d) outside a load; last journal line %q; stderr %s", tag, res.Code, o.lastLine, res.StderrPath)
			return
		}
		m.abnormal(tag, mode, k, rem[:n+1], o, res, judge)
		rem = rem[n+1:]
		// a tree on which one lock is lost again and again: the verdict is
		// established, do not spend the whole budget re-establishing it
		m.mu.Lock()
		worst := 0
		for _, n := range m.deadlocks {
			if n > worst {
				worst = n
			}
		}
		m.mu.Unlock()
		if worst > 100 && len(rem) > 0 {
			c.Count("cases_skipped_after_100_deadlocks_of_one_kind", int64(len(rem)))
			return
		}
	}
}

func (m *monitor) harness(format string, a ...interface{}) {
	m.mu.Lock()
	m.harnessErr++
	m.mu.Unlock()
	fmt.Printf("HARNESS property=C11 "+format+"\n", a...)
}

func readDump(path string) string {
	b, _ := os.ReadFile(path)
	return string(b)
}

// dumpExcerpt returns the goroutine block of the worker.
func dumpExcerpt(dump string) string {
	for _, g := range strings.Split(dump, "\n\n") {
		if i := strings.Index(g, "goroutine "); i > 0 {
			g = g[i:]
		}
		if strings.HasPrefix(g, "goroutine ") && (strings.Contains(g, "props/c11.loadValidate") || strings.Contains(g, "props/c11.loadStart")) {
			if len(g) > 5000 {
				g = g[:5000]
			}
			return g
		}
	}
	return ""
}

// abnormal decides what the end of a child in the middle of case k means.
func (m *monitor) abnormal(tag, mode string, k *Case, prefix []*Case, o *outParse, res *lib.SubResult, judge func(*Case, *caseRes)) {
	c := m.c
	dump := readDump(res.StderrPath)
	witness := map[string]interface{}{
		"casketfile": k.Text("127.0.0.1:2015"), "mode": mode, "stuck_in_load": o.pendRun,
		"earlier_loads_of_this_case": o.partial[k.ID], "child_exit_code": res.Code, "journal_last": o.lastLine,
	}
	frame := parkedWorkerIn(dump)
	libFrame := lib.ParkedInCasketLock(res.StderrPath)
	switch {
	case (o.stall != "" || res.TimedOut) && frame != "":
		key := "C11/deadlock/" + frame
		witness["parked_frame"] = frame
		witness["lib.ParkedInCasketLock"] = libFrame
		witness["goroutine"] = dumpExcerpt(dump)
		m.mu.Lock()
		seen := m.deadlocks[key]
		m.mu.Unlock()
		if seen < 2 {
			// confirm deterministically in fresh children with a longer window:
			// the case alone, then after its predecessor, then after everything
			// this child had loaded before (state left behind by earlier loads)
			tries := [][]*Case{{k}}
			if len(prefix) >= 2 {
				tries = append(tries, prefix[len(prefix)-2:])
			}
			if len(prefix) > 2 {
				tries = append(tries, prefix)
			}
			confirmed := false
			var alone *caseRes
			for i, t := range tries {
				o2, res2 := m.runChild(fmt.Sprintf("%s-confirm%d", tag, i), mode, t, m.tParkMs.Load()*3, 60000)
				f2 := parkedWorkerIn(readDump(res2.StderrPath))
				if o2.stall != "" && f2 == frame && o2.pending && o2.pendID == k.ID {
					confirmed = true
					switch i {
					case 0:
						witness["confirmed"] = "re-run alone in a fresh process"
					case 1:
						witness["confirmed"] = "re-run in a fresh process after the preceding case"
						witness["preceding_casketfile"] = t[0].Text("127.0.0.1:2015")
					default:
						witness["confirmed"] = fmt.Sprintf("re-run in a fresh process after the %d cases loaded before it", len(t)-1)
						var prev []string
						for j := len(t) - 2; j >= 0 && len(prev) < 10; j-- {
							prev = append(prev, oneLine(t[j].Directive()))
						}
						witness["preceding_cases_most_recent_first"] = prev
					}
					break
				}
				if i == 0 && len(o2.results) == 1 {
					alone = o2.results[0]
				}
			}
			if !confirmed {
				c.Inconclusive(fmt.Sprintf("load parked in %s once but not when re-run (alone, after its predecessor, after the whole batch prefix): %s", frame, oneLine(k.Key())))
				if alone != nil {
					judge(k, alone)
				}
				return
			}
		}
		m.mu.Lock()
		m.deadlocks[key]++
		m.mu.Unlock()
		c.Count("deadlocks", 1)
		c.Eval(1)
		c.Nontrivial(k.Directive())
		what := fmt.Sprintf("load %d of `%s` never returns: goroutine parked in %s", o.pendRun, oneLine(k.Key()), frame)
		m.deferViolation(k.ID, key, what, witness)
	case strings.Contains(o.stall, " iowait "):
		// blocked reading from a peer that never answers; confirm alone with three times the window
		ioFrame := o.stall[strings.Index(o.stall, " iowait ")+len(" iowait "):]
		key := "C11/hang-on-silent-peer/" + ioFrame
		witness["blocked_below"] = ioFrame
		witness["goroutine"] = dumpExcerpt(dump)
		witness["note"] = "addresses in load 2 point at a listener that accepts and never answers (load 1: closed port)"
		m.mu.Lock()
		seen := m.deadlocks[key]
		m.mu.Unlock()
		if seen < 2 {
			o2, _ := m.runChild(tag+"-ioconfirm", mode, []*Case{k}, m.tParkMs.Load()*3, 120000)
			if !(strings.Contains(o2.stall, " iowait ") && o2.pending && o2.pendID == k.ID) {
				if len(o2.results) == 1 {
					c.Count("slow_cases", 1)
					judge(k, o2.results[0])
					return
				}
				c.Eval(1)
				c.Inconclusive(fmt.Sprintf("load blocked on the silent peer once but ended differently when re-run alone: %s", oneLine(k.Key())))
				return
			}
			witness["confirmed"] = fmt.Sprintf("re-run alone in a fresh process: still blocked after %d ms without any progress", m.tParkMs.Load()*18)
		}
		m.mu.Lock()
		m.deadlocks[key] += 10 // ten of these end the batch: each costs seconds
		m.mu.Unlock()
		c.Count("hangs_on_silent_peer", 1)
		c.Eval(1)
		c.Nontrivial(k.Directive())
		m.deferViolation(k.ID, key, fmt.Sprintf("load %d of `%s` does not return: blocked below %s waiting for a peer named in its arguments that accepts the connection and never answers", o.pendRun, oneLine(k.Key()), ioFrame), witness)
	case o.stall != "" || res.TimedOut:
		// slow or computing without end: not decidable from one dump. Run it
		// alone with a window of 120 s. A load that has then used more than
		// 60 s of PROCESSOR time (not wall-clock time: the number does not
		// depend on how busy the machine is) for a configuration of a few
		// lines, and whose goroutine is still running inside casket code, is
		// past every bound a user could accept.
		key := "C11/nontermination/cpu/" + k.Dir
		m.mu.Lock()
		seen := m.deadlocks[key]
		m.mu.Unlock()
		if seen >= 2 && strings.Contains(o.stall, "no-progress") {
			// two loads of this directive are already confirmed that way:
			// count this one under the same key without paying for it again
			c.Count("nonterminating_loads_not_rerun", 1)
			c.Eval(1)
			return
		}
		o2, res2 := m.runChild(tag+"-slow", mode, []*Case{k}, m.tParkMs.Load(), 120000)
		if len(o2.results) == 1 {
			c.Count("slow_cases", 1)
			judge(k, o2.results[0])
			return
		}
		c.Eval(1)
		var cpu int64
		if i := strings.Index(o2.stall, "cpu="); i >= 0 {
			fmt.Sscanf(o2.stall[i:], "cpu=%d", &cpu)
		}
		dump2 := readDump(res2.StderrPath)
		runFrame := runningWorkerIn(dump2)
		if strings.Contains(o2.stall, "no-progress") && cpu >= 60000 && runFrame != "" && o2.pending && o2.pendID == k.ID {
			witness["processor_ms_used_by_the_load"] = cpu
			witness["running_in"] = runFrame
			witness["goroutine"] = dumpExcerpt(dump2)
			witness["confirmed"] = "re-run alone in a fresh process: 120 s without returning"
			m.mu.Lock()
			m.deadlocks[key]++
			m.mu.Unlock()
			c.Count("nonterminating_loads", 1)
			c.Nontrivial(k.Directive())
			m.deferViolation(k.ID, key, fmt.Sprintf("load %d of `%s` does not end: alone in a fresh process it used %d s of processor time in 120 s and is still running in %s", o.pendRun, oneLine(k.Key()), cpu/1000, runFrame), witness)
			return
		}
		c.Inconclusive(fmt.Sprintf("no return within 30 s and again within 120 s alone (processor time used %d ms, stall %q): %s", cpu, o2.stall, oneLine(k.Key())))
	default:
		witness["stderr_tail"] = trunc(tailOf(dump, 3000), 3000)
		c.Count("exits_during_load", 1)
		c.Eval(1)
		m.deferViolation(k.ID, "C11/exit-during-load/"+k.Dir, fmt.Sprintf("process exited (code %d) inside the load of `%s`", res.Code, oneLine(k.Key())), witness)
	}
}

// crash handles a child that died from a panic outside the loading goroutine
// (or a fatal error). The death is asynchronous, so the case being loaded at
// that moment need not be the cause: the most recent cases are re-run one per
// child (with a short linger) to find the one that reproduces the crash.
func (m *monitor) crash(tag, mode string, ran []*Case, o *outParse, res *lib.SubResult, frame, tail string, judge func(*Case, *caseRes)) {
	c := m.c
	key := "C11/crash/" + frame
	c.Count("crashes", 1)
	var pend *Case
	if o.pending && len(ran) > 0 && ran[len(ran)-1].ID == o.pendID {
		pend = ran[len(ran)-1]
	}
	m.mu.Lock()
	attributed := 0
	if b := m.viol[key]; b != nil {
		attributed = b.n
	}
	m.mu.Unlock()
	var recent []string
	for i := len(ran) - 1; i >= 0 && len(recent) < 25; i-- {
		recent = append(recent, oneLine(ran[i].Directive()))
	}
	witness := map[string]interface{}{"mode": mode, "child_exit_code": res.Code, "stderr": trunc(tail, 6000), "crashing_frame": frame}
	var culprit *Case
	if attributed < 3 && len(ran) > 0 {
		// bisect over everything this child had loaded: a goroutine started
		// by a setup may crash the process many cases later
		crashes := func(sub []*Case, n int) (bool, string) {
			_, res2 := m.runChildLinger(fmt.Sprintf("%s-bisect%d-%d", tag, ran[len(ran)-1].ID, n), mode, sub, m.tParkMs.Load(), 30000, 500)
			cr, f2, t2 := hasCrash(res2)
			return cr && f2 == frame, t2
		}
		lo, hi, n := 0, len(ran), 0
		for hi-lo > 1 {
			mid := (lo + hi) / 2
			n++
			if cr, _ := crashes(ran[lo:mid], n); cr {
				hi = mid
			} else {
				lo = mid
			}
		}
		if cr, t2 := crashes(ran[lo:hi], n+1); cr {
			culprit = ran[lo]
			witness["stderr"] = trunc(t2, 6000)
			witness["reproduced_alone"] = true
		}
	}
	if pend != nil && culprit != pend {
		// the interrupted case still deserves its own verdict
		if o2, _ := m.runChild(tag+"-pend", mode, []*Case{pend}, m.tParkMs.Load(), 30000); len(o2.results) == 1 {
			judge(pend, o2.results[0])
		}
	}
	c.Eval(1)
	id, rank := 0, 1
	what := ""
	if culprit != nil {
		rank = 0
		id = culprit.ID
		witness["casketfile"] = culprit.Text("127.0.0.1:2015")
		c.Nontrivial("crash|" + culprit.Directive())
		what = fmt.Sprintf("loading `%s` kills the process: %s", oneLine(culprit.Directive()), firstLine(tail))
	} else {
		if len(ran) > 0 {
			id = ran[len(ran)-1].ID
		}
		witness["recent_cases_most_recent_first"] = recent
		what = fmt.Sprintf("process died while loading configurations (one of the %d most recent cases; not attributed to a single one): %s", len(recent), firstLine(tail))
	}
	m.deferViolationRank(rank, id, key, what, witness)
}

func tailOf(s string, n int) string {
	if len(s) > n {
		return s[len(s)-n:]
	}
	return s
}

func firstLine(s string) string {
	if i := strings.IndexByte(s, '\n'); i >= 0 {
		return s[:i]
	}
	return s
}

func oneLine(s string) string {
	return strings.Join(strings.Fields(s), " ")
}

// ---- oracle -------------------------------------------------------------------

var (
	reLoc    = regexp.MustCompile(`^[^ ]*:\d+ - Error during parsing: `)
	reQuoted = regexp.MustCompile(`'[^']*'|"[^"]*"|` + "`[^`]*`")
	reNum    = regexp.MustCompile(`\d+`)
)

var parserMarkers = []string{"Unknown directive", "Unexpected EOF", "Unexpected '}'", "Syntax error", "Could not import", "Import requires", "Import takes", "Expected another address"}

func outcomeClass(r runRes) string {
	if r.Panic != "" {
		return "PANIC"
	}
	if r.Acc {
		return "ACCEPT"
	}
	e := reLoc.ReplaceAllString(r.Err, "")
	e = reQuoted.ReplaceAllString(e, "Q")
	e = reNum.ReplaceAllString(e, "N")
	if i := strings.Index(e, ": "); i > 12 {
		e = e[:i] // keep the directive's own message, drop wrapped OS / library detail
	}
	return trunc(e, 70)
}

func parserLevel(err string) bool {
	for _, mk := range parserMarkers {
		if strings.Contains(err, mk) {
			return true
		}
	}
	return false
}

// judgeOne is the verdict for one case that was validated twice.
func (m *monitor) judgeOne(ds *dirState, k *Case, r *caseRes) {
	c := m.c
	if r == nil || len(r.Runs) < 2 {
		return
	}
	c.Eval(1)
	c.Count("loads", 2)
	r1, r2 := r.Runs[0], r.Runs[1]
	if p := anyPanic(r.Runs); p != nil {
		run := 1
		if r1.Panic == "" {
			run = 2
		}
		c.Count("panics", 1)
		c.Nontrivial(k.Directive())
		m.deferViolation(k.ID, "C11/panic/"+r.PanicSig,
			fmt.Sprintf("setup of `%s` panics: %s", oneLine(k.Key()), p.Panic),
			map[string]interface{}{"casketfile": k.Text("127.0.0.1:2015"), "minimal_casketfile": r.MinText, "panic": p.Panic, "stack": p.Stack, "panicking_load": run,
				"call": "casket.ValidateAndExecuteDirectives(input, nil, true)"})
		return
	}
	if r1.Acc != r2.Acc {
		c.Count("second_load_outcome_differs", 1)
		m.sample("second-identical-load-differs(sent to the validate-against-start comparison)", 3, k.ID, map[string]interface{}{"directive": oneLine(k.Key()), "first": r1, "second": r2})
		ds.mu.Lock()
		ds.differs = append(ds.differs, k.ID)
		ds.mu.Unlock()
	}
	oc := outcomeClass(r1)
	ds.mu.Lock()
	if r1.Acc {
		ds.acc[k.ID] = true
	} else if strings.Contains(r1.Err, "127.0.0.1") && !strings.Contains(k.Key(), "127.0.0.1") && !parserLevel(r1.Err) {
		// the verdict names the site it was reached for: it may be another one for another key
		if ds.keyDep == nil {
			ds.keyDep = map[string][]int{}
		}
		ds.keyDep[oc] = append(ds.keyDep[oc], k.ID)
	}
	ds.outcomes[oc] = append(ds.outcomes[oc], k.ID)
	ds.mu.Unlock()
	m.mu.Lock()
	if r1.Acc {
		m.perDirAcc[k.Dir]++
	} else {
		m.perDirRej[k.Dir]++
	}
	m.mu.Unlock()
	if r1.Acc {
		c.Count("accepted", 1)
	} else {
		c.Count("rejected", 1)
	}
	if !r1.Acc && parserLevel(r1.Err) {
		c.Count("parser_level_rejections", 1)
	} else {
		c.Nontrivial(k.Directive())
	}
	if len(k.Lines) > 0 {
		c.Count("cases_with_sub_block", 1)
		if t := k.Key(); k.Dir == "proxy" && r1.Acc && strings.Contains(t, "127.0.0.1:1") && strings.Contains(t, "health_check") {
			c.Count("accepted_proxy_blocks_naming_a_peer_with_health_check", 1)
		}
	}
	switch {
	case r1.Acc && len(k.Lines) == 2:
		m.sample("accepted-two-line-block", 2, k.ID, oneLine(k.Key()))
	case r1.Acc && len(k.Lines) == 1:
		m.sample("accepted-block", 2, k.ID, oneLine(k.Key()))
	case !r1.Acc && len(k.Lines) == 1:
		m.sample("rejected-block", 2, k.ID, map[string]string{"directive": oneLine(k.Key()), "error": r1.Err})
	case !r1.Acc && len(k.Args) >= 3:
		m.sample("rejected-head", 2, k.ID, map[string]string{"directive": oneLine(k.Key()), "error": r1.Err})
	}
}

// stratifiedSample picks cases of one directive round-robin over the outcome
// classes seen in the validate phases (so accepted cases and every kind of
// rejection are represented).
func (m *monitor) stratifiedSample(ds *dirState, byID map[int]*Case, per int) []*Case {
	var out []*Case
	om := ds.outcomes
	var classes []string
	for oc := range om {
		classes = append(classes, oc)
	}
	sort.Strings(classes)
	sort.SliceStable(classes, func(i, j int) bool { return classes[i] == "ACCEPT" && classes[j] != "ACCEPT" })
	r := m.c.Rng("c11/sample/" + ds.name)
	pos := map[string][]int{}
	for _, oc := range classes {
		ids := append([]int(nil), om[oc]...)
		sort.Ints(ids)
		p := r.Perm(len(ids))
		sh := make([]int, len(ids))
		for i, x := range p {
			sh[i] = ids[x]
		}
		pos[oc] = sh
	}
	picked := 0
	for picked < per {
		any := false
		for _, oc := range classes {
			take := 1
			if oc == "ACCEPT" {
				take = 3
			}
			for t := 0; t < take && picked < per; t++ {
				if len(pos[oc]) == 0 {
					break
				}
				id := pos[oc][0]
				pos[oc] = pos[oc][1:]
				if k := byID[id]; k != nil {
					out = append(out, k)
					picked++
					any = true
				}
			}
		}
		if !any {
			break
		}
	}
	return out
}

// judgeStartOne compares -validate with a real start for one case.
func (m *monitor) judgeStartOne(k *Case, r *caseRes) {
	c := m.c
	if r == nil || len(r.Runs) < 2 {
		return
	}
	c.Eval(1)
	v, s := r.Runs[0], r.Runs[1]
	text := k.Text(strings.NewReplacer("1111", "<free port>", "2222", "<free port 2>").Replace(k.Addr(1111, 2222)))
	if k.Keys != 0 {
		c.Count("start_cases_two_keys", 1)
	}
	if v.Panic != "" {
		// reported with a minimised signature by the validate phases
		c.Count("start_phase_validate_panics", 1)
		return
	}
	if s.Panic != "" {
		fr := "unknown"
		for _, l := range strings.Split(s.Stack, "\n") {
			if mm := casketFnRe.FindStringSubmatch(l); mm != nil && !strings.HasPrefix(l, "\t") {
				fr = frameName(mm[1])
				break
			}
		}
		c.Count("panics", 1)
		m.deferViolation(k.ID, "C11/panic-start/"+k.Dir+"/"+fr, fmt.Sprintf("real start of `%s` panics: %s", oneLine(k.Key()), s.Panic),
			map[string]interface{}{"casketfile": text, "panic": s.Panic, "stack": s.Stack, "call": "casket.Start(input)"})
		return
	}
	dk := k.Dir
	if k.With != nil {
		dk = k.Dir + "+" + k.With.Dir
		if k.With.Dir < k.Dir {
			dk = k.With.Dir + "+" + k.Dir
		}
	}
	c.Count("start_cases_compared", 1)
	c.Nontrivial("start|" + k.Key())
	if r.Started {
		c.Count("start_really_started", 1)
	}
	switch {
	case v.Acc && !r.StartAccepted:
		c.Count("disagreements", 1)
		m.deferViolation(k.ID, "C11/disagree/"+dk+"/validate-accepts-start-rejects",
			fmt.Sprintf("-validate accepts `%s` but a real start rejects it while executing directives: %s", oneLine(k.Key()), r.StartErr),
			map[string]interface{}{"casketfile": text, "validate": "nil error", "start_error": r.StartErr})
	case !v.Acc && r.StartAccepted:
		c.Count("disagreements", 1)
		m.deferViolation(k.ID, "C11/disagree/"+dk+"/validate-rejects-start-accepts",
			fmt.Sprintf("-validate rejects `%s` (%s) but a real start executes all its directives", oneLine(k.Key()), v.Err),
			map[string]interface{}{"casketfile": text, "validate_error": v.Err, "start_error": r.StartErr, "started": r.Started})
	case v.Acc && r.StartAccepted && !r.Started:
		c.Count("start_failed_after_directives_accepted", 1)
		m.sample("start-failed-after-acceptance(not judged)", 3, k.ID, map[string]string{"directive": oneLine(k.Key()), "error": r.StartErr})
	case v.Acc:
		c.Count("start_agree_accept", 1)
		m.sample("agree-accept", 2, k.ID, oneLine(k.Key()))
	default:
		c.Count("start_agree_reject", 1)
		m.sample("agree-reject", 2, k.ID, map[string]string{"directive": oneLine(k.Key()), "validate_error": v.Err, "start_error": r.StartErr})
	}
}
