package c11

import (
	"fmt"
	"sort"
	"strings"

	"verifharness/lib"
)

// Case is one generated configuration: a single site block holding a single
// directive with head arguments and an optional sub-block.
type Case struct {
	ID    int        `json:"id"`
	Dir   string     `json:"dir"`
	Args  []string   `json:"args"`
	Block bool       `json:"block"`
	Lines [][]string `json:"lines,omitempty"`
	Phase int        `json:"phase"`
	// With is a second directive in the same site block (phase 4).
	With *Case `json:"with,omitempty"`
	// FlagDir is the directive after which the real start must have got for
	// the case to count as accepted (the later of the two in directive order).
	FlagDir string `json:"flag_dir,omitempty"`
	// Keys selects the site block's address list in the start phase: 0 a
	// single loopback address; 1 and 2 two keys (a name that qualifies for
	// managed TLS and one that does not, in either order), because a
	// directive is set up once per key and may judge the keys differently.
	Keys int `json:"keys,omitempty"`
	// After are surplus tokens on the line of the sub-block's closing brace.
	After []string `json:"after,omitempty"`
	// MustStart: always part of the validate-against-start comparison.
	MustStart bool `json:"must_start,omitempty"`
}

// Addr renders the address list of the case's site block.
func (k *Case) Addr(p1, p2 int) string {
	switch k.Keys {
	case 1:
		return fmt.Sprintf("sub.a.verif.test:%d, localhost:%d", p1, p2)
	case 2:
		return fmt.Sprintf("localhost:%d, sub.a.verif.test:%d", p2, p1)
	}
	return fmt.Sprintf("127.0.0.1:%d", p1)
}

const addrPlaceholder = "127.0.0.1:@PORT@"

func plainTok(s string) bool {
	if s == "" {
		return false
	}
	for _, r := range s {
		switch {
		case r >= 'a' && r <= 'z', r >= 'A' && r <= 'Z', r >= '0' && r <= '9':
		case strings.ContainsRune("_./:=*+-!@,<>?&|~^", r):
		default:
			return false
		}
	}
	return true
}

func renderTok(s string) string {
	if plainTok(s) {
		return s
	}
	return `"` + strings.ReplaceAll(s, `"`, `\"`) + `"`
}

func renderToks(ts []string) string {
	var b strings.Builder
	for i, t := range ts {
		if i > 0 {
			b.WriteByte(' ')
		}
		b.WriteString(renderTok(t))
	}
	return b.String()
}

// Directive renders only the directive (canonical key of the case).
func (k *Case) Directive() string {
	var b strings.Builder
	b.WriteString(k.Dir)
	if len(k.Args) > 0 {
		b.WriteByte(' ')
		b.WriteString(renderToks(k.Args))
	}
	if k.Block {
		b.WriteString(" {\n")
		for _, l := range k.Lines {
			b.WriteString("\t\t")
			b.WriteString(renderToks(l))
			b.WriteByte('\n')
		}
		b.WriteString("\t}")
		if len(k.After) > 0 {
			b.WriteByte(' ')
			b.WriteString(renderToks(k.After))
		}
	}
	return b.String()
}

// Text renders the whole Casketfile for a site address.
func (k *Case) Text(addr string) string {
	return addr + " {\n\t" + k.Key() + "\n}\n"
}

// Key is the canonical text of the case (all its directives).
func (k *Case) Key() string {
	if k.With != nil {
		return k.Directive() + "\n\t" + k.With.Directive()
	}
	return k.Directive()
}

// lexical classes. Paths are rooted at "/" because the child processes are
// chroot-ed into the fixture directory (see child.go); without a sandbox
// (not root) they are prefixed with the fixture directory and "/" is left out.
type lex struct {
	all  []string
	core []string
	sfx  []string // suffixes appended to scraped prefixes
}

func lexClasses(sandbox bool, fix string) lex {
	p := func(n string) string {
		if sandbox {
			return "/" + n
		}
		return fix + "/" + n
	}
	l := lex{}
	l.all = []string{
		"", "/p", "p", "*", ".x", "!", "-1", "0", "1", "9223372036854775808", "1KB", "10s",
		"none", "off", "on", "not", "http://127.0.0.1:1", "unix:/x", "srv://", "{x", "x}", "{path}", "{>X-H}",
		p("ok.txt"), p("garbage.bin"), p("d"), p("missing"), "ok.txt", "garbage.bin", "d", "missing",
		p("c.crt"), p("c.key"), p("certs"), p("certs2"), "Casketfile", p("Casketfile"), "d/../Casketfile", "127.0.0.2:65530-65535", "127.0.0.2:7-9", "127.0.0.2:9-7", "ht.txt", "tpl.html", "404", "301", "127.0.0.1:1", "a b",
		// quoted tokens that are non-empty but contain no shell word / look like a
		// comment / are an unbalanced quote once a directive splits them again
		" ", "#c", "'", "\t ",
	}
	l.core = []string{"", " ", "/p", "p", "*", "-1", "0", "1", "10s", "1KB", p("ok.txt"), "{path}", "x}", "http://127.0.0.1:1", "404", "#c"}
	if sandbox {
		l.all = append([]string{"/"}, l.all...)
		l.core = append([]string{"/"}, l.core...)
	}
	l.sfx = []string{"", "x", p("missing"), p("ok.txt"), "ht.txt", "htbad.txt", "1"}
	return l
}

// dirVocab is the token universe of one directive.
type dirVocab struct {
	name string
	V    []string // every argument token
	C    []string // core subset
	KW   []string // block keywords to try
}

const unknownKw = "unknownkw"

func buildVocab(name string, v *vocab, l lex) *dirVocab {
	d := &dirVocab{name: name, C: l.core}
	seen := map[string]bool{}
	add := func(s string) {
		if !seen[s] {
			seen[s] = true
			d.V = append(d.V, s)
		}
	}
	for _, s := range l.all {
		add(s)
	}
	if v != nil {
		for _, s := range v.Keywords {
			add(s)
		}
		for _, pre := range v.Prefixes {
			for _, sf := range l.sfx {
				add(pre + sf)
			}
		}
	}
	add(unknownKw)
	seenK := map[string]bool{}
	addK := func(s string) {
		if s != "" && !seenK[s] && s != "{" && s != "}" {
			seenK[s] = true
			d.KW = append(d.KW, s)
		}
	}
	if v != nil {
		for _, s := range v.Keywords {
			addK(s)
		}
	}
	for _, s := range []string{unknownKw, "/p", ".x", "404", "*", "a b"} {
		addK(s)
	}
	return d
}

func cp(a []string, more ...string) []string {
	out := make([]string, 0, len(a)+len(more))
	out = append(out, a...)
	return append(out, more...)
}

func mixTok(r *lib.Rng, d *dirVocab) string {
	if r.Bool() {
		return d.C[r.Intn(len(d.C))]
	}
	return d.V[r.Intn(len(d.V))]
}

// dedupe keeps the first case of every distinct directive text.
func dedupe(cs []*Case) []*Case {
	seen := map[string]*Case{}
	out := cs[:0:0]
	for _, k := range cs {
		t := k.Directive()
		if first := seen[t]; first == nil {
			seen[t] = k
			out = append(out, k)
		} else if k.MustStart {
			first.MustStart = true
		}
	}
	return out
}

// capCases keeps all "must" cases and a seeded sample of the rest.
func capCases(r *lib.Rng, must, rest []*Case, max int) []*Case {
	must = dedupe(must)
	rest = dedupe(rest)
	if len(must)+len(rest) <= max || max <= 0 {
		return dedupe(append(must, rest...))
	}
	room := max - len(must)
	if room < max/4 {
		room = max / 4 // the sampled part is never squeezed out entirely
	}
	if room > len(rest) {
		room = len(rest)
	}
	perm := r.Perm(len(rest))
	idx := perm[:room]
	sort.Ints(idx)
	out := must
	for _, i := range idx {
		out = append(out, rest[i])
	}
	return dedupe(out)
}

type budget struct {
	p1Full2    bool // arity 2 over V x V (else V x C and C x V)
	p1n3       int
	p1n4       int
	p1cap      int
	p2cap      int
	p2n2       int
	p2n3       int
	p3pairs    int
	p3variants int
	p3sysCap   int
	p2heads    int
	startPer   int // agreement sample per directive
	crossAcc   int // phase 4: accepted representatives per directive
	crossRej   int
	crossStart int // phase 4 cases that are also really started
}

func budgets(c *lib.Ctx) budget {
	if c.Quick() {
		return budget{p1n3: 400, p1n4: 150, p1cap: 4000, p2cap: 8000, p2n2: 10, p2n3: 4, p3pairs: 1500, p3variants: 8, p3sysCap: 25000, p2heads: 4, startPer: 40, crossAcc: 3, crossRej: 1, crossStart: 1500}
	}
	return budget{p1Full2: true, p1n3: 20000, p1n4: 10000, p1cap: 60000, p2cap: 120000, p2n2: 80, p2n3: 30, p3pairs: 30000, p3variants: 40, p3sysCap: 100000, p2heads: 6, startPer: 800, crossAcc: 9, crossRej: 2, crossStart: 10000}
}

// phase1: head arguments only (plus empty blocks).
func genPhase1(c *lib.Ctx, d *dirVocab, b budget) []*Case {
	r := c.Rng("c11/p1/" + d.name)
	var must, rest []*Case
	mk := func(args []string, block bool) *Case { return &Case{Dir: d.name, Args: args, Block: block, Phase: 1} }
	must = append(must, mk(nil, false), mk(nil, true))
	for _, a := range d.V {
		must = append(must, mk([]string{a}, false))
	}
	for _, a := range d.C {
		must = append(must, mk([]string{a}, true))
		for _, a2 := range d.C {
			must = append(must, mk([]string{a, a2}, false))
		}
	}
	// tokens that name one of the fixture's user files, in the positions
	// where a directive looks for them
	for _, a := range d.V {
		if strings.HasSuffix(a, "ht.txt") || strings.HasSuffix(a, "htbad.txt") {
			ms := mk([]string{"p", a}, false)
			ms.MustStart = true
			must = append(must, ms, mk([]string{"/p", "p", a}, false), mk([]string{"other", a}, false), mk([]string{"p", a}, true))
		}
	}
	// the name of the configuration file itself (it need not exist) as an
	// argument: only a real start looks at where the Casketfile is
	for _, a := range d.V {
		if a == "Casketfile" || strings.HasSuffix(a, "/Casketfile") {
			ms := mk([]string{a}, false)
			ms.MustStart = true
			must = append(must, ms)
		}
	}
	for _, a := range []string{"", "/p", "1"} {
		for _, a2 := range []string{"", "/p", "1"} {
			for _, a3 := range []string{"", "/p", "1"} {
				must = append(must, mk([]string{a, a2, a3}, false))
			}
		}
	}
	for i := 0; i < 16; i++ {
		t := make([]string, 4)
		for j := range t {
			t[j] = []string{"", "p"}[(i>>j)&1]
		}
		must = append(must, mk(t, false))
	}
	if b.p1Full2 {
		for _, a := range d.V {
			for _, a2 := range d.V {
				rest = append(rest, mk([]string{a, a2}, false))
			}
		}
	} else {
		for _, a := range d.V {
			for _, a2 := range d.C {
				rest = append(rest, mk([]string{a, a2}, false), mk([]string{a2, a}, false))
			}
		}
	}
	for i := 0; i < b.p1n3; i++ {
		rest = append(rest, mk([]string{mixTok(r, d), mixTok(r, d), mixTok(r, d)}, false))
	}
	for i := 0; i < b.p1n4; i++ {
		rest = append(rest, mk([]string{mixTok(r, d), mixTok(r, d), mixTok(r, d), mixTok(r, d)}, false))
	}
	return capCases(r, must, rest, b.p1cap)
}

// pickHeads chooses head argument tuples for the block phases: the empty head,
// a path-only head and accepted heads of phase 1 (diverse in arity and first
// token).
func pickHeads(p1 []*Case, acc map[int]bool, max int) [][]string {
	heads := [][]string{nil}
	seen := map[string]bool{"": true}
	byArity := map[int]int{}
	firsts := map[string]bool{}
	for _, k := range p1 {
		if len(heads) >= max {
			break
		}
		if k.Block || !acc[k.ID] || len(k.Args) == 0 {
			continue
		}
		key := strings.Join(k.Args, "\x00")
		f := string(rune('0'+len(k.Args))) + k.Args[0]
		if seen[key] || byArity[len(k.Args)] >= 2 || firsts[f] {
			continue
		}
		seen[key], firsts[f] = true, true
		byArity[len(k.Args)]++
		heads = append(heads, k.Args)
	}
	if !seen["/p"] {
		heads = append(heads, []string{"/p"})
	}
	// accepted heads that name a network peer, if there are any: the shortest
	// one with the peer as its last argument and the shortest one with the peer
	// first (sub-directives that make the setup talk to that peer need one)
	var peerLast, peerFirst []string
	for _, k := range p1 {
		if k.Block || !acc[k.ID] || len(k.Args) == 0 {
			continue
		}
		if strings.Contains(k.Args[len(k.Args)-1], "127.0.0.1:1") && (peerLast == nil || len(k.Args) < len(peerLast)) {
			peerLast = k.Args
		}
		if strings.Contains(k.Args[0], "127.0.0.1:1") && (peerFirst == nil || len(k.Args) < len(peerFirst)) {
			peerFirst = k.Args
		}
	}
	// ... and, whether phase 1 happened to draw them or not, the plain ways of
	// naming a peer: alone, after a path, before a path
	fixed := [][]string{peerLast, peerFirst}
	for _, t := range []string{"http://127.0.0.1:1"} {
		fixed = append(fixed, []string{t}, []string{"/", t})
	}
	for _, h := range fixed {
		if h != nil && !seen[strings.Join(h, "\x00")] {
			seen[strings.Join(h, "\x00")] = true
			heads = append(heads, h)
		}
	}
	return heads
}

// phase2: one-line sub-blocks.
func genPhase2(c *lib.Ctx, d *dirVocab, heads [][]string, b budget) []*Case {
	r := c.Rng("c11/p2/" + d.name)
	var must, rest []*Case
	mk := func(h []string, line []string) *Case {
		return &Case{Dir: d.name, Args: h, Block: true, Lines: [][]string{line}, Phase: 2}
	}
	namesPeer := func(h []string) bool {
		return len(h) > 0 && strings.Contains(h[len(h)-1], "127.0.0.1:1")
	}
	// the fixture's certificate and key files, as the vocabulary spells them
	var crt, key string
	var pems []string
	for _, a := range d.V {
		switch {
		case strings.HasSuffix(a, "/c.crt") && !strings.Contains(a, "="):
			crt = a
			pems = append(pems, a)
		case strings.HasSuffix(a, "/c.key") && !strings.Contains(a, "="):
			key = a
		case strings.HasSuffix(a, "certs/ok.pem") && !strings.Contains(a, "="):
			pems = append(pems, a)
		}
	}
	for hi, h := range heads {
		for _, kw := range d.KW {
			must = append(must, mk(h, []string{kw}))
			if namesPeer(h) {
				// sub-directives that load certificates for talking to the peer
				for _, a := range pems {
					must = append(must, mk(h, []string{kw, a}))
				}
				if crt != "" && key != "" {
					must = append(must, mk(h, []string{kw, crt, key}))
				}
			}
			for _, a := range d.C {
				if hi <= 1 || namesPeer(h) {
					must = append(must, mk(h, []string{kw, a}), mk(h, []string{kw, "", a}), mk(h, []string{kw, a, ""}))
				} else {
					rest = append(rest, mk(h, []string{kw, a}))
				}
			}
			if hi <= 1 {
				for _, a := range d.V {
					rest = append(rest, mk(h, []string{kw, a}))
				}
			}
			for i := 0; i < b.p2n2; i++ {
				rest = append(rest, mk(h, []string{kw, mixTok(r, d), mixTok(r, d)}))
			}
			for i := 0; i < b.p2n3; i++ {
				rest = append(rest, mk(h, []string{kw, mixTok(r, d), mixTok(r, d), mixTok(r, d)}))
			}
		}
	}
	return capCases(r, must, rest, b.p2cap)
}

// phase3: two-line sub-blocks built from lines of phase 2 (accepted lines
// preferred, so that the second line is actually reached).
func genPhase3(c *lib.Ctx, d *dirVocab, p2 []*Case, acc map[int]bool, b budget) []*Case {
	r := c.Rng("c11/p3/" + d.name)
	type hl struct {
		head []string
		line []string
	}
	byHead := map[string][]hl{}
	var headKeys []string
	var rej []hl
	for _, k := range p2 {
		if len(k.Lines) != 1 {
			continue
		}
		if acc[k.ID] {
			hk := strings.Join(k.Args, "\x00")
			if _, ok := byHead[hk]; !ok {
				headKeys = append(headKeys, hk)
			}
			byHead[hk] = append(byHead[hk], hl{k.Args, k.Lines[0]})
		} else if len(rej) < 4000 {
			rej = append(rej, hl{k.Args, k.Lines[0]})
		}
	}
	var out []*Case
	if len(headKeys) == 0 {
		return nil
	}
	// systematic part: under the head with most accepted lines, every ordered
	// pair of keywords; first line = the keyword's first accepted line, second
	// line = each accepted variant of the other keyword with at most one
	// argument (values such as 0, "", none are what interacts with defaults).
	best := headKeys[0]
	for _, hk := range headKeys {
		if len(byHead[hk]) > len(byHead[best]) {
			best = hk
		}
	}
	var kws []string
	variants := map[string][][]string{}
	for _, l := range byHead[best] {
		if len(l.line) > 2 {
			continue
		}
		kw := l.line[0]
		if _, ok := variants[kw]; !ok {
			kws = append(kws, kw)
		}
		if len(variants[kw]) < b.p3variants {
			variants[kw] = append(variants[kw], l.line)
		}
	}
	var sys []*Case
	head := byHead[best][0].head
	for _, k1 := range kws {
		for _, k2 := range kws {
			for _, l2 := range variants[k2] {
				sys = append(sys, &Case{Dir: d.name, Args: head, Block: true, Lines: [][]string{variants[k1][0], l2}, Phase: 3})
			}
		}
	}
	out = capCases(r, nil, sys, b.p3sysCap)
	// surplus tokens after the closing brace, on its line: the sub-block of
	// the first accepted line of up to four keywords, and an empty sub-block
	for i, kw := range kws {
		if i >= 4 {
			break
		}
		for _, after := range [][]string{{"extra"}, {"{"}, {"}"}} {
			out = append(out, &Case{Dir: d.name, Args: head, Block: true, Lines: [][]string{variants[kw][0]}, After: after, Phase: 3})
		}
	}
	out = append(out, &Case{Dir: d.name, Args: head, Block: true, After: []string{"extra"}, Phase: 3})
	for i := 0; i < b.p3pairs; i++ {
		ls := byHead[headKeys[r.Intn(len(headKeys))]]
		l1 := ls[r.Intn(len(ls))]
		var l2 []string
		switch r.Intn(4) {
		case 0: // same keyword twice
			l2 = cp(l1.line)
			if len(l2) > 1 && r.Bool() {
				l2[len(l2)-1] = mixTok(r, d)
			}
		case 1: // a rejected line after an accepted one
			if len(rej) > 0 {
				l2 = rej[r.Intn(len(rej))].line
			} else {
				l2 = ls[r.Intn(len(ls))].line
			}
		default:
			l2 = ls[r.Intn(len(ls))].line
		}
		out = append(out, &Case{Dir: d.name, Args: l1.head, Block: true, Lines: [][]string{l1.line, l2}, Phase: 3})
	}
	return dedupe(out)
}

// genCross: phase 4, two different directives in one site block, built from
// representatives (accepted and rejected) of the single-directive phases.
func genCross(c *lib.Ctx, dirs []string, reps map[string][]*Case) []*Case {
	r := c.Rng("c11/cross")
	order := map[string]int{}
	for i, d := range dirs {
		order[d] = i
	}
	var out []*Case
	for i, d1 := range dirs {
		for _, d2 := range dirs[i+1:] {
			for _, a := range reps[d1] {
				for _, b := range reps[d2] {
					x, y := *a, *b
					x.With, y.With = nil, nil
					first, second := &x, &y
					if r.Bool() {
						first, second = second, first
					}
					k := *first
					k.With = second
					k.Phase = 4
					k.FlagDir = d2 // d2 comes later in directive order
					if order[d1] > order[d2] {
						k.FlagDir = d1
					}
					out = append(out, &k)
				}
			}
		}
	}
	return out
}
