package c11

import (
	"encoding/json"
	"fmt"
	"github.com/caddyserver/certmagic"
	"io"
	"log"
	"os"
	"regexp"
	"runtime"
	"runtime/debug"
	"strconv"
	"strings"
	"sync/atomic"
	"syscall"
	"time"

	"github.com/tmpim/casket"
	"verifharness/lib"
)

// ---- child side: the system under test -------------------------------------
//
// vh sub C11 batch <in> <out> <fixdir> <sandbox 0|1> <tParkMs> <tMaxMs>
// vh sub C11 start <in> <out> <fixdir> <sandbox 0|1> <tParkMs> <tMaxMs>
//
// <in> is a JSON array of Case; <out> is the write-ahead journal + results:
//   B <id> <run>      written BEFORE a load is executed
//   R <id> <json>     result of the case (all its runs)
//   S <id> <why>      the in-process watchdog is about to SIGQUIT this process
//   RESTART           the child asks to be replaced (after a recovered panic)
//   DONE

// runRes is the outcome of one load.
type runRes struct {
	Acc   bool   `json:"acc"`
	Err   string `json:"err,omitempty"`
	Panic string `json:"panic,omitempty"`
	Stack string `json:"stack,omitempty"`
}

// caseRes is the outcome of one case.
type caseRes struct {
	ID   int      `json:"id"`
	Runs []runRes `json:"runs"` // batch: validate, validate. start: validate, start
	// panic attribution (batch mode)
	PanicSig string `json:"panic_sig,omitempty"` // e.g. tls-key_type-no-arg
	MinText  string `json:"min_text,omitempty"`
	// start mode
	StartAccepted bool   `json:"start_accepted,omitempty"` // the parsing callback after the directive fired
	Started       bool   `json:"started,omitempty"`        // casket.Start returned an instance
	StartErr      string `json:"start_err,omitempty"`
}

var (
	progress  atomic.Int64
	currentID atomic.Int64
	outFile   *os.File
	lingerMs  int
)

func outf(format string, a ...interface{}) {
	fmt.Fprintf(outFile, format, a...)
}

func trunc(s string, n int) string {
	if len(s) > n {
		return s[:n] + "..."
	}
	return s
}

// enterSandbox confines the child: chroot into the fixture directory and drop
// to an unprivileged uid, so that no generated argument can reach outside the
// fixture (tls { load / }, log /p, on startup <cmd>, ...).
func enterSandbox(fix string, sandbox bool) error {
	os.Setenv("PATH", "")
	os.Setenv("HOME", "/")
	os.Setenv("CASKETPATH", "/cp")
	os.Unsetenv("TMPDIR")
	if !sandbox {
		return os.Chdir(fix)
	}
	if err := syscall.Chroot(fix); err != nil {
		return fmt.Errorf("chroot: %v", err)
	}
	if err := os.Chdir("/"); err != nil {
		return err
	}
	if err := syscall.Setgroups([]int{65534}); err != nil {
		return fmt.Errorf("setgroups: %v", err)
	}
	if err := syscall.Setgid(65534); err != nil {
		return fmt.Errorf("setgid: %v", err)
	}
	if err := syscall.Setuid(65534); err != nil {
		return fmt.Errorf("setuid: %v", err)
	}
	return nil
}

func childInit(args []string) ([]*Case, time.Duration, time.Duration, error) {
	if len(args) < 6 {
		return nil, 0, 0, fmt.Errorf("usage: <in> <out> <fix> <sandbox> <tParkMs> <tMaxMs>")
	}
	b, err := os.ReadFile(args[0])
	if err != nil {
		return nil, 0, 0, err
	}
	var cases []*Case
	if err := json.Unmarshal(b, &cases); err != nil {
		return nil, 0, 0, err
	}
	outFile, err = os.OpenFile(args[1], os.O_CREATE|os.O_WRONLY|os.O_APPEND, 0o644)
	if err != nil {
		return nil, 0, 0, err
	}
	if err := enterSandbox(args[2], args[3] == "1"); err != nil {
		return nil, 0, 0, err
	}
	tp, _ := strconv.Atoi(args[4])
	tm, _ := strconv.Atoi(args[5])
	if len(args) > 6 {
		lingerMs, _ = strconv.Atoi(args[6])
	}
	// a load that allocates without end dies of it (and is reported as a
	// crash inside that load) instead of taking the machine with it
	syscall.Setrlimit(syscall.RLIMIT_AS, &syscall.Rlimit{Cur: 16 << 30, Max: 16 << 30})
	log.SetOutput(io.Discard)
	casket.Quiet = true
	// names that qualify for managed TLS make a real start ask the CA in the
	// background: point it at a closed loopback port
	certmagic.DefaultACME.CA = "https://127.0.0.1:1/directory"
	certmagic.DefaultACME.Email = "verif@verif.test"
	certmagic.DefaultACME.Agreed = true
	return cases, time.Duration(tp) * time.Millisecond, time.Duration(tm) * time.Millisecond, nil
}

// linger gives goroutines started by the last setups a chance to run (and to
// crash the process, if that is what they do) before the child exits.
func linger() {
	for i := 0; i < 10; i++ {
		runtime.Gosched()
	}
	time.Sleep(time.Duration(lingerMs) * time.Millisecond)
}

// workerParked inspects this process' own goroutines and reports whether the
// worker goroutine is parked in a mutex inside casket code.
func workerParked() string {
	return parkedWorkerIn(ownDump())
}

func ownDump() string {
	buf := make([]byte, 32<<20)
	n := runtime.Stack(buf, true)
	return string(buf[:n])
}

var (
	lockStates = []string{"sync.Mutex.Lock", "semacquire", "sync.RWMutex", "sync.WaitGroup", "chan receive", "chan send"}
	// waiting for bytes from a peer, directly or through net/http's round trip
	ioStates = []string{"IO wait", "select"}
)

var casketFnRe = regexp.MustCompile(`github\.com/tmpim/casket/?([A-Za-z0-9_/\.\(\)\*]+)\(`)

// parkedWorkerIn finds, in a goroutine dump, the worker goroutine (it has one
// of our load functions on its stack) parked in sync.(*Mutex).Lock /
// sync.(*RWMutex) / semacquire below a casket frame; it returns that frame.
func parkedWorkerIn(dump string) string { return parkedIn(dump, lockStates) }

func parkedIn(dump string, states []string) string {
	for _, g := range strings.Split(dump, "\n\n") {
		if i := strings.Index(g, "goroutine "); i > 0 {
			g = g[i:]
		}
		if !strings.HasPrefix(g, "goroutine ") {
			continue
		}
		if !strings.Contains(g, "props/c11.loadValidate") && !strings.Contains(g, "props/c11.loadStart") {
			continue
		}
		head := g
		if i := strings.Index(g, "\n"); i > 0 {
			head = g[:i]
		}
		in := false
		for _, st := range states {
			in = in || strings.Contains(head, st)
		}
		if !in {
			continue
		}
		if len(states) == len(ioStates) && !strings.Contains(g, "net/http.(*Client)") && !strings.Contains(g, "net.(*conn).Read") &&
			!strings.Contains(g, "net.(*Dialer)") && !strings.Contains(g, "net.(*netFD)") {
			continue // a select that is not about the network
		}
		for _, l := range strings.Split(g, "\n") {
			if strings.HasPrefix(l, "\t") {
				continue
			}
			if m := casketFnRe.FindStringSubmatch(l); m != nil {
				return frameName(m[1])
			}
		}
	}
	return ""
}

// frameName makes frames of the root package readable (".Start" -> "casket.Start").
func frameName(f string) string {
	if strings.HasPrefix(f, ".") {
		return "casket" + f
	}
	return f
}

var cpuAtProgress atomic.Int64

// cpuMs is the processor time (user + system) this process has used so far.
func cpuMs() int64 {
	var ru syscall.Rusage
	if syscall.Getrusage(syscall.RUSAGE_SELF, &ru) != nil {
		return 0
	}
	return (ru.Utime.Sec+ru.Stime.Sec)*1000 + int64(ru.Utime.Usec+ru.Stime.Usec)/1000
}

// runningWorkerIn finds the worker goroutine running (not waiting for
// anything) and returns the innermost casket frame below which it runs.
func runningWorkerIn(dump string) string {
	for _, g := range strings.Split(dump, "\n\n") {
		if i := strings.Index(g, "goroutine "); i > 0 {
			g = g[i:]
		}
		if !strings.HasPrefix(g, "goroutine ") {
			continue
		}
		if !strings.Contains(g, "props/c11.loadValidate") && !strings.Contains(g, "props/c11.loadStart") {
			continue
		}
		head := g
		if i := strings.Index(g, "\n"); i > 0 {
			head = g[:i]
		}
		if !strings.Contains(head, "[running") && !strings.Contains(head, "[runnable") {
			continue
		}
		for _, l := range strings.Split(g, "\n") {
			if strings.HasPrefix(l, "\t") {
				continue
			}
			if m := casketFnRe.FindStringSubmatch(l); m != nil {
				return frameName(m[1])
			}
		}
	}
	return ""
}

func watchdog(tPark, tMax time.Duration) {
	last := progress.Load()
	since := time.Now()
	parkedSeen, ioSeen := 0, 0
	for {
		time.Sleep(200 * time.Millisecond)
		if p := progress.Load(); p != last {
			last, since, parkedSeen, ioSeen = p, time.Now(), 0, 0
			cpuAtProgress.Store(cpuMs())
			continue
		}
		idle := time.Since(since)
		why := ""
		if idle >= tPark {
			if f := workerParked(); f != "" {
				parkedSeen++
				if parkedSeen >= 3 {
					why = "parked " + f
				}
			} else {
				parkedSeen = 0
			}
		}
		if why == "" && idle >= 6*tPark {
			// blocked on a network peer for several seconds, in every sample
			if f := parkedIn(ownDump(), ioStates); f != "" {
				ioSeen++
				if ioSeen >= 5 {
					why = "iowait " + f
				}
			} else {
				ioSeen = 0
			}
		}
		if why == "" && idle >= tMax {
			// how much processor time the load has used since it began: the
			// deciding number for a load that computes without end (it does
			// not depend on how busy the machine is)
			why = fmt.Sprintf("no-progress cpu=%d", (cpuMs() - cpuAtProgress.Load()))
		}
		if why != "" {
			outf("S %d %s\n", currentID.Load(), why)
			syscall.Kill(os.Getpid(), syscall.SIGQUIT)
			time.Sleep(30 * time.Second)
			os.Exit(2)
		}
	}
}

//go:noinline
func loadValidate(text string) (res runRes) {
	defer func() {
		if r := recover(); r != nil {
			res.Panic = trunc(fmt.Sprint(r), 300)
			res.Stack = trunc(string(debug.Stack()), 6000)
		}
	}()
	err := casket.ValidateAndExecuteDirectives(lib.Input(text, ""), nil, true)
	if err != nil {
		res.Err = trunc(err.Error(), 400)
	} else {
		res.Acc = true
	}
	return
}

var refusedAddrRe = regexp.MustCompile(`127\.0\.0\.1:1\b`)

// silentText is the case with every address token pointing at the monitor's
// silent peer (a listener that takes connections and never answers) instead
// of a closed port: a setup that talks to the peers named in its arguments
// then does not come back.
func silentText(text string) string {
	if p := os.Getenv("VERIF_C11_SILENT"); p != "" {
		return refusedAddrRe.ReplaceAllString(text, "127.0.0.1:"+p)
	}
	return text
}

func validateTwice(k *Case) []runRes {
	text := k.Text("127.0.0.1:2015")
	var out []runRes
	for run := 1; run <= 2; run++ {
		outf("B %d %d\n", k.ID, run)
		progress.Add(1)
		if run == 2 {
			text = silentText(text)
		}
		r := loadValidate(text)
		out = append(out, r)
		pb, _ := json.Marshal(runRes{Acc: r.Acc, Err: r.Err, Panic: r.Panic})
		outf("P %d %d %s\n", k.ID, run, pb)
	}
	return out
}

func anyPanic(rs []runRes) *runRes {
	for i := range rs {
		if rs[i].Panic != "" {
			return &rs[i]
		}
	}
	return nil
}

var kwNameRe = regexp.MustCompile(`^[A-Za-z0-9_]+$`)

func panicClass(msg string) string {
	switch {
	case strings.Contains(msg, "index out of range"):
		return "index"
	case strings.Contains(msg, "slice bounds out of range"):
		return "slice"
	case strings.Contains(msg, "nil pointer dereference"):
		return "nil"
	case strings.Contains(msg, "nil map"):
		return "nilmap"
	}
	return "other"
}

// minimize reduces a panicking case to the responsible line / head and derives
// a canonical signature  <dir>[-<kw>]-<shape>.
func minimize(k *Case, first *runRes) (string, string) {
	cur := *k
	pan := func(c *Case) *runRes { return anyPanic(validateTwice(c)) }
	last := first
	if cur.With != nil {
		// two directives: is one of them enough?
		a, b := cur, *cur.With
		a.With, a.FlagDir = nil, ""
		switch {
		case pan(&a) != nil:
			return minimize(&a, first)
		case pan(&b) != nil:
			return minimize(&b, first)
		}
		return a.Dir + "+" + b.Dir + "-combination-" + panicClass(first.Panic), cur.Text("127.0.0.1:2015")
	}
	if len(cur.Lines) > 1 {
		for _, l := range cur.Lines {
			t := cur
			t.Lines = [][]string{l}
			if p := pan(&t); p != nil {
				cur, last = t, p
				break
			}
		}
	}
	if len(cur.Lines) > 0 {
		t := cur
		t.Lines, t.Block = nil, false
		if p := pan(&t); p != nil {
			cur, last = t, p
		}
	}
	if len(cur.Lines) > 0 && len(cur.Args) > 0 {
		t := cur
		t.Args = nil
		if p := pan(&t); p != nil {
			cur, last = t, p
		}
	}
	resp := cur.Args
	sig := cur.Dir
	if len(cur.Lines) == 1 {
		// drop leading tokens (a keyword that does not consume its arguments
		// leaves them to be read as the next keyword), then trailing ones
		for changed := true; changed; {
			changed = false
			line := cur.Lines[0]
			if len(line) > 1 {
				for _, cand := range [][]string{cp(line[1:]), cp(line[:len(line)-1])} {
					t := cur
					t.Lines = [][]string{cand}
					if p := pan(&t); p != nil {
						cur, last, changed = t, p, true
						break
					}
				}
			}
		}
		kw := cur.Lines[0][0]
		if kwNameRe.MatchString(kw) {
			sig += "-" + kw
		} else {
			sig += "-tok"
		}
		resp = cur.Lines[0][1:]
	} else if len(cur.Lines) > 1 {
		// only the combination of lines panics
		var names []string
		for _, l := range cur.Lines {
			if kwNameRe.MatchString(l[0]) {
				names = append(names, l[0])
			} else {
				names = append(names, "tok")
			}
		}
		return sig + "-" + strings.Join(names, "+") + "-lines-" + panicClass(last.Panic), cur.Text("127.0.0.1:2015")
	} else {
		for len(resp) > 0 {
			t := cur
			t.Args = cp(cur.Args[:len(cur.Args)-1])
			if p := pan(&t); p != nil {
				cur, last = t, p
				resp = cur.Args
			} else {
				break
			}
		}
	}
	shape := ""
	switch {
	case len(resp) == 0:
		shape = "no-arg"
	default:
		shape = fmt.Sprintf("args%d-%s", len(resp), panicClass(last.Panic))
		for _, a := range resp {
			if a == "" {
				shape = "empty-arg"
			}
		}
	}
	return sig + "-" + shape, cur.Text("127.0.0.1:2015")
}

func subBatch(args []string) int {
	cases, tPark, tMax, err := childInit(args)
	if err != nil {
		fmt.Fprintln(os.Stderr, "c11 child:", err)
		return 3
	}
	go watchdog(tPark, tMax)
	for _, k := range cases {
		currentID.Store(int64(k.ID))
		res := caseRes{ID: k.ID}
		res.Runs = validateTwice(k)
		restart := false
		if p := anyPanic(res.Runs); p != nil {
			res.PanicSig, res.MinText = minimize(k, p)
			restart = true
		}
		b, _ := json.Marshal(res)
		outf("R %d %s\n", k.ID, b)
		if restart {
			// state after a panic in the middle of a setup is suspect: let the
			// parent continue the batch in a fresh process.
			outf("RESTART\n")
			return 0
		}
	}
	outf("DONE\n")
	linger()
	return 0
}

// ---- start mode: validate vs real start ------------------------------------

var (
	accepted   = map[string]*atomic.Int32{}
	startDirs  []string
	callbackOn atomic.Bool
)

//go:noinline
func loadStart(text string) (inst *casket.Instance, res runRes) {
	defer func() {
		if r := recover(); r != nil {
			res.Panic = trunc(fmt.Sprint(r), 300)
			res.Stack = trunc(string(debug.Stack()), 6000)
		}
	}()
	inst, err := casket.Start(lib.Input(text, ""))
	if err != nil {
		res.Err = trunc(err.Error(), 400)
	} else {
		res.Acc = true
	}
	return
}

func subStart(args []string) int {
	cases, tPark, tMax, err := childInit(args)
	if err != nil {
		fmt.Fprintln(os.Stderr, "c11 child:", err)
		return 3
	}
	for _, d := range registeredDirectives() {
		d := d
		f := new(atomic.Int32)
		accepted[d] = f
		casket.RegisterParsingCallback("http", d, func(casket.Context) error {
			f.Store(1)
			return nil
		})
	}
	go watchdog(tPark, tMax)
	for _, k := range cases {
		currentID.Store(int64(k.ID))
		res := caseRes{ID: k.ID}
		fd := k.Dir
		if k.FlagDir != "" {
			fd = k.FlagDir
		}
		f := accepted[fd]
		if f == nil {
			continue
		}
		addr := k.Addr(lib.FreePort(), lib.FreePort())
		outf("B %d 1\n", k.ID)
		progress.Add(1)
		v := loadValidate(k.Text(addr))
		pb, _ := json.Marshal(runRes{Acc: v.Acc, Err: v.Err, Panic: v.Panic})
		outf("P %d 1 %s\n", k.ID, pb)
		f.Store(0)
		outf("B %d 2\n", k.ID)
		progress.Add(1)
		inst, s := loadStart(k.Text(addr))
		res.Runs = []runRes{v, s}
		res.StartAccepted = f.Load() == 1
		res.Started = inst != nil && s.Acc
		res.StartErr = s.Err
		if inst != nil && s.Acc {
			// only a started instance is stopped: what a failed start leaves
			// behind is another property's business (C08)
			progress.Add(1)
			lib.StopWait(inst)
		}
		b, _ := json.Marshal(res)
		outf("R %d %s\n", k.ID, b)
		if v.Panic != "" || s.Panic != "" {
			outf("RESTART\n")
			return 0
		}
	}
	outf("DONE\n")
	linger()
	return 0
}

// registeredDirectives is the http server type's directive list filtered to
// directives that have a plugin registered in this binary, minus directives
// the harness itself registers.
func registeredDirectives() []string {
	var out []string
	for _, d := range casket.ValidDirectives("http") {
		if strings.HasPrefix(d, "verif") {
			continue
		}
		if a, err := casket.DirectiveAction("http", d); err == nil && a != nil {
			out = append(out, d)
		}
	}
	return out
}
