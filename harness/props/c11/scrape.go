package c11

import (
	"fmt"
	"go/ast"
	"go/parser"
	"go/token"
	"os"
	"path/filepath"
	"sort"
	"strconv"
	"strings"
)

// vocab is what was scraped from the sources of one directive's package.
type vocab struct {
	Dir      string   `json:"dir"`      // package directory relative to the repo root
	Keywords []string `json:"keywords"` // literals in case clauses, ==/!= comparisons, map keys, []string literals
	Prefixes []string `json:"prefixes"` // literals used as token prefixes (htpasswd=, unix:, syslog://, ...)
}

// sharedParserFiles are sub-parsers in httpserver that several directives
// hand their dispenser to (log roller options, log outputs, `if` conditions).
// Their words are added to every directive's vocabulary.
var sharedParserFiles = []string{
	"caskethttp/httpserver/roller.go",
	"caskethttp/httpserver/logger.go",
	"caskethttp/httpserver/condition.go",
}

// slowWords are excluded from the vocabulary: they are legal values whose only
// effect is minutes of RSA key generation per load (tls self_signed with
// key_type rsa4096/rsa8192), which would be read as a stall.
var slowWords = map[string]bool{"RSA4096": true, "RSA8192": true}

func repoRoot() string {
	if r := os.Getenv("VERIF_REPO"); r != "" {
		return r
	}
	return "/repo"
}

func tokenLike(s string, max int) bool {
	if len(s) == 0 || len(s) > max {
		return false
	}
	for _, r := range s {
		if r <= ' ' || r == 0x7f || r == '%' || r == '"' || r == '\\' || r > 0x7e {
			return false
		}
	}
	if s == "{" || s == "}" {
		return false
	}
	return !slowWords[s]
}

func litString(e ast.Expr) (string, bool) {
	b, ok := e.(*ast.BasicLit)
	if !ok || b.Kind != token.STRING {
		return "", false
	}
	s, err := strconv.Unquote(b.Value)
	if err != nil {
		return "", false
	}
	return s, true
}

func looksLikePrefix(s string) bool {
	if len(s) < 2 || len(s) > 16 {
		return false
	}
	return strings.HasSuffix(s, "=") || strings.HasSuffix(s, ":") || strings.HasSuffix(s, "://")
}

// scrapeFiles collects keyword and prefix literals from parsed files.
func scrapeFiles(files []*ast.File, kw, pre map[string]bool) {
	for _, f := range files {
		ast.Inspect(f, func(n ast.Node) bool {
			switch x := n.(type) {
			case *ast.CaseClause:
				for _, e := range x.List {
					if s, ok := litString(e); ok && tokenLike(s, 32) {
						kw[s] = true
					}
				}
			case *ast.BinaryExpr:
				if x.Op == token.EQL || x.Op == token.NEQ {
					for _, e := range []ast.Expr{x.X, x.Y} {
						if s, ok := litString(e); ok && tokenLike(s, 32) {
							kw[s] = true
						}
					}
				}
			case *ast.CompositeLit:
				isMap, isStrSlice := false, false
				switch t := x.Type.(type) {
				case *ast.MapType:
					isMap = true
				case *ast.ArrayType:
					if id, ok := t.Elt.(*ast.Ident); ok && id.Name == "string" {
						isStrSlice = true
					}
				}
				for _, el := range x.Elts {
					if kv, ok := el.(*ast.KeyValueExpr); ok && isMap {
						if s, ok := litString(kv.Key); ok && tokenLike(s, 40) {
							kw[s] = true
						}
					} else if isStrSlice {
						if s, ok := litString(el); ok && tokenLike(s, 32) {
							kw[s] = true
						}
					}
				}
			case *ast.CallExpr:
				if sel, ok := x.Fun.(*ast.SelectorExpr); ok && len(x.Args) == 2 {
					switch sel.Sel.Name {
					case "HasPrefix", "TrimPrefix":
						if s, ok := litString(x.Args[1]); ok && tokenLike(s, 16) {
							pre[s] = true
						}
					case "HasSuffix", "TrimSuffix", "Contains", "EqualFold":
						if s, ok := litString(x.Args[1]); ok && tokenLike(s, 32) {
							kw[s] = true
						}
					}
				}
			case *ast.ValueSpec:
				// named string constants (`directiveRotateSize = "rotate_size"`): the
				// case clauses and comparisons that use them name the identifier, not the literal
				for _, e := range x.Values {
					if s, ok := litString(e); ok && tokenLike(s, 32) {
						kw[s] = true
					}
				}
			case *ast.BasicLit:
				if s, ok := litString(x); ok && tokenLike(s, 16) && looksLikePrefix(s) {
					pre[s] = true
				}
			}
			return true
		})
	}
}

func parseDirFiles(fset *token.FileSet, dir string) []*ast.File {
	ents, err := os.ReadDir(dir)
	if err != nil {
		return nil
	}
	var out []*ast.File
	for _, e := range ents {
		n := e.Name()
		if e.IsDir() || !strings.HasSuffix(n, ".go") || strings.HasSuffix(n, "_test.go") {
			continue
		}
		f, err := parser.ParseFile(fset, filepath.Join(dir, n), nil, parser.SkipObjectResolution)
		if err != nil {
			continue
		}
		out = append(out, f)
	}
	return out
}

// pluginNames finds RegisterPlugin("name", ...) calls (name a literal or a
// package-level string constant) in the files of one package.
func pluginNames(files []*ast.File) []string {
	consts := map[string]string{}
	for _, f := range files {
		for _, d := range f.Decls {
			gd, ok := d.(*ast.GenDecl)
			if !ok || (gd.Tok != token.CONST && gd.Tok != token.VAR) {
				continue
			}
			for _, sp := range gd.Specs {
				vs, ok := sp.(*ast.ValueSpec)
				if !ok {
					continue
				}
				for i, nm := range vs.Names {
					if i < len(vs.Values) {
						if s, ok := litString(vs.Values[i]); ok {
							consts[nm.Name] = s
						}
					}
				}
			}
		}
	}
	var names []string
	for _, f := range files {
		ast.Inspect(f, func(n ast.Node) bool {
			call, ok := n.(*ast.CallExpr)
			if !ok || len(call.Args) < 1 {
				return true
			}
			sel, ok := call.Fun.(*ast.SelectorExpr)
			if !ok || sel.Sel.Name != "RegisterPlugin" {
				return true
			}
			if s, ok := litString(call.Args[0]); ok {
				names = append(names, s)
			} else if id, ok := call.Args[0].(*ast.Ident); ok {
				if s, ok := consts[id.Name]; ok {
					names = append(names, s)
				}
			}
			return true
		})
	}
	return names
}

// scrapeRepo maps directive name -> vocabulary by walking the repository.
func scrapeRepo(root string) (map[string]*vocab, int, error) {
	fset := token.NewFileSet()
	out := map[string]*vocab{}
	// shared sub-parsers
	sharedKw, sharedPre := map[string]bool{}, map[string]bool{}
	sharedFound := 0
	for _, rel := range sharedParserFiles {
		f, err := parser.ParseFile(fset, filepath.Join(root, rel), nil, parser.SkipObjectResolution)
		if err != nil {
			continue
		}
		sharedFound++
		scrapeFiles([]*ast.File{f}, sharedKw, sharedPre)
	}
	err := filepath.Walk(root, func(p string, info os.FileInfo, err error) error {
		if err != nil {
			return nil
		}
		if !info.IsDir() {
			return nil
		}
		b := info.Name()
		if p != root && (strings.HasPrefix(b, ".") || b == "vendor" || b == "testdata" || b == "dist") {
			return filepath.SkipDir
		}
		files := parseDirFiles(fset, p)
		if len(files) == 0 {
			return nil
		}
		names := pluginNames(files)
		if len(names) == 0 {
			return nil
		}
		kw, pre := map[string]bool{}, map[string]bool{}
		scrapeFiles(files, kw, pre)
		// sub-packages of the directive's package that do not register a
		// plugin themselves (onevent/hook, markdown/metadata, ...)
		filepath.Walk(p, func(sp string, si os.FileInfo, err error) error {
			if err != nil || !si.IsDir() || sp == p {
				return nil
			}
			if strings.HasPrefix(si.Name(), ".") || si.Name() == "testdata" || si.Name() == "vendor" {
				return filepath.SkipDir
			}
			sf := parseDirFiles(fset, sp)
			if len(pluginNames(sf)) > 0 {
				return filepath.SkipDir
			}
			scrapeFiles(sf, kw, pre)
			return nil
		})
		rel, _ := filepath.Rel(root, p)
		for _, nm := range names {
			v := &vocab{Dir: rel}
			seenK := map[string]bool{}
			for k := range kw {
				seenK[k] = true
			}
			for k := range sharedKw {
				seenK[k] = true
			}
			for k := range seenK {
				v.Keywords = append(v.Keywords, k)
			}
			seenP := map[string]bool{}
			for k := range pre {
				seenP[k] = true
			}
			for k := range sharedPre {
				seenP[k] = true
			}
			for k := range seenP {
				v.Prefixes = append(v.Prefixes, k)
			}
			sort.Strings(v.Keywords)
			sort.Strings(v.Prefixes)
			out[nm] = v
		}
		return nil
	})
	if err != nil {
		return nil, sharedFound, err
	}
	if len(out) == 0 {
		return nil, sharedFound, fmt.Errorf("no RegisterPlugin call found under %s", root)
	}
	return out, sharedFound, nil
}
