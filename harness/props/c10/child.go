package c10

// Child-process side: the real casketfile parser runs here. Three modes
// (bytes, fx, rt). Every mode installs the doImport step counter, a resource
// guard (CPU time and heap of the process while one and the same case is
// running) and a write-ahead journal of the running case index in a shared
// memory-mapped file, so that even a fatal error is attributable.

import (
	"bytes"
	"encoding/binary"
	"encoding/json"
	"fmt"
	"io"
	"log"
	"os"
	"path/filepath"
	"reflect"
	"regexp"
	"runtime"
	"sort"
	"strconv"
	"strings"
	"sync"
	"sync/atomic"
	"syscall"
	"time"

	"github.com/tmpim/casket/casketfile"
	"github.com/tmpim/casket/verifhook"
)

// ------------------------------------------------------------ step counter

type stepLimit struct{ n int64 }

var (
	steps     int64
	stepBound int64 = 1 << 62
)

func installHook() {
	verifhook.Set(func(name string) {
		if name != "casketfile.doImport" {
			return
		}
		n := atomic.AddInt64(&steps, 1)
		if n > atomic.LoadInt64(&stepBound) {
			// logical verdict: more expansions than any terminating parse of
			// this input needs. Unwind out of the parser.
			panic(stepLimit{n})
		}
	})
}

// outcome of one guarded parse
type outcome struct {
	Blocks   []casketfile.ServerBlock
	Err      error
	Panic    string // non-empty: the parser panicked
	Stack    string
	Exceeded bool // step bound exceeded
	Steps    int64
}

func guardedParse(filename string, input []byte, bound int64) (o outcome) {
	atomic.StoreInt64(&steps, 0)
	atomic.StoreInt64(&stepBound, bound)
	defer func() {
		o.Steps = atomic.LoadInt64(&steps)
		if r := recover(); r != nil {
			if _, ok := r.(stepLimit); ok {
				o.Exceeded = true
				return
			}
			o.Panic = fmt.Sprint(r)
			buf := make([]byte, 8192)
			o.Stack = string(buf[:runtime.Stack(buf, false)])
		}
	}()
	o.Blocks, o.Err = casketfile.Parse(filename, bytes.NewReader(input), nil)
	return
}

// ------------------------------------------------------------ journal + guard

type guard struct {
	mm      []byte
	cur     int64 // index of the running case (atomic)
	mu      sync.Mutex
	onTrip  func(kind string, idx int64) // called with mu held by the guard goroutine
	cpuMax  time.Duration
	heapMax uint64
}

func newGuard(journalPath string) *guard {
	g := &guard{cpuMax: 40 * time.Second, heapMax: 3 << 30}
	if journalPath != "" {
		f, err := os.OpenFile(journalPath, os.O_CREATE|os.O_RDWR, 0o644)
		if err == nil {
			f.Truncate(64)
			m, err := syscall.Mmap(int(f.Fd()), 0, 64, syscall.PROT_READ|syscall.PROT_WRITE, syscall.MAP_SHARED)
			if err == nil {
				g.mm = m
			}
			f.Close()
		}
	}
	atomic.StoreInt64(&g.cur, -1)
	return g
}

// begin journals the case about to run (write-ahead).
func (g *guard) begin(idx int64) {
	if g.mm != nil {
		binary.LittleEndian.PutUint64(g.mm[0:], uint64(idx)+1)
	}
	atomic.StoreInt64(&g.cur, idx)
}

func cpuNow() time.Duration {
	var ru syscall.Rusage
	syscall.Getrusage(syscall.RUSAGE_SELF, &ru)
	return time.Duration(ru.Utime.Nano() + ru.Stime.Nano())
}

// watch trips when one case has consumed cpuMax of process CPU time or the
// heap has grown beyond heapMax. Both are amounts of work done by this
// process, not wall-clock time: a starved process does not trip.
func (g *guard) watch() {
	go func() {
		last := int64(-2)
		var base time.Duration
		for {
			time.Sleep(100 * time.Millisecond)
			cur := atomic.LoadInt64(&g.cur)
			now := cpuNow()
			if cur != last {
				last, base = cur, now
				continue
			}
			if cur < 0 {
				continue
			}
			var ms runtime.MemStats
			kind := ""
			if now-base > g.cpuMax {
				kind = "cpu"
			} else {
				runtime.ReadMemStats(&ms)
				if ms.HeapAlloc > g.heapMax {
					kind = "memory"
				}
			}
			if kind != "" {
				g.mu.Lock()
				g.onTrip(kind, cur)
				os.Exit(0)
			}
		}
	}()
}

func readJournal(path string) int64 {
	b, err := os.ReadFile(path)
	if err != nil || len(b) < 8 {
		return -1
	}
	return int64(binary.LittleEndian.Uint64(b)) - 1
}

func quiet() {
	log.SetOutput(io.Discard)
}

// ------------------------------------------------------------ common result

type childViol struct {
	Key     string      `json:"key"`
	What    string      `json:"what"`
	Idx     int64       `json:"idx"`
	Witness interface{} `json:"witness"`
}

type childResult struct {
	Mode     string           `json:"mode"`
	Lo, Hi   int64            `json:"-"`
	Done     int64            `json:"done"` // cases [lo, done) are finished
	Trip     string           `json:"trip,omitempty"`
	TripIdx  int64            `json:"trip_idx,omitempty"`
	Counts   map[string]int64 `json:"counts"`
	Outcomes map[string]int64 `json:"outcomes,omitempty"`
	Viols    []childViol      `json:"viols,omitempty"`
	NT       []byte           `json:"nt,omitempty"` // 8-byte hashes of non-trivial cases
	Samples  []interface{}    `json:"samples,omitempty"`
	Feats    map[string]int64 `json:"feats,omitempty"`
}

func (r *childResult) viol(key, what string, idx int64, w interface{}) {
	n := 0
	for _, v := range r.Viols {
		if v.Key == key {
			n++
		}
	}
	r.Counts["viol:"+key]++
	if n < 3 {
		r.Viols = append(r.Viols, childViol{key, what, idx, w})
	}
}

func emit(r *childResult) {
	b, _ := json.Marshal(r)
	os.Stdout.Write(append(b, '\n'))
}

func fnv64(b []byte) uint64 {
	h := uint64(14695981039346656037)
	for _, c := range b {
		h ^= uint64(c)
		h *= 1099511628211
	}
	return h
}

var errLocRe = regexp.MustCompile(`([^\s:]+):(\d+)`)

// errNamesFileLine checks "an error naming a file and line": some
// "<file>:<line>" where file is the name given to Parse or a file below root.
func errNamesFileLine(msg, mainName, root string) (ok bool, lineZero bool) {
	for _, m := range errLocRe.FindAllStringSubmatch(msg, -1) {
		if m[1] == mainName || (root != "" && strings.HasPrefix(m[1], root)) {
			n, _ := strconv.Atoi(m[2])
			if n >= 1 {
				return true, false
			}
			lineZero = true
		}
	}
	return false, lineZero
}

var numRe = regexp.MustCompile(`\d+`)
var quotedRe = regexp.MustCompile(`'[^']*'|"[^"]*"`)

// normErr turns an error message into an outcome class.
func normErr(msg, root string) string {
	if i := strings.Index(msg, " - "); i >= 0 {
		msg = msg[i+3:]
	}
	msg = strings.ReplaceAll(msg, root, "<root>")
	msg = quotedRe.ReplaceAllString(msg, "'…'")
	msg = numRe.ReplaceAllString(msg, "N")
	if len(msg) > 70 {
		msg = msg[:70]
	}
	return msg
}

// ------------------------------------------------------------ mode: bytes (a)

// args: <kind> <seed> <lo> <hi> <root> <journal>
func subBytes(args []string) int {
	quiet()
	installHook()
	kind := args[0]
	seed, _ := strconv.ParseUint(args[1], 10, 64)
	lo, _ := strconv.ParseInt(args[2], 10, 64)
	hi, _ := strconv.ParseInt(args[3], 10, 64)
	root := args[4]
	g := newGuard(args[5])
	res := &childResult{Mode: "bytes/" + kind, Lo: lo, Hi: hi, Done: lo, Counts: map[string]int64{}, Outcomes: map[string]int64{}}
	g.onTrip = func(k string, idx int64) {
		res.Trip, res.TripIdx = k, idx
		emit(res)
	}
	g.watch()
	mainName := filepath.Join(root, "Casketfile")
	os.Chdir(root)
	const bound = 2000
	for i := lo; i < hi; i++ {
		in := bytesCase(kind, seed, i, root)
		g.begin(i)
		o := guardedParse(mainName, in, bound)
		g.mu.Lock()
		res.Done = i + 1
		res.Counts["evaluated"]++
		wit := func() map[string]interface{} {
			return map[string]interface{}{"input": string(in), "input_quoted": strconv.Quote(string(in)), "kind": kind, "index": i, "seed": seed, "filename": mainName, "steps": o.Steps}
		}
		trivial := false
		switch {
		case o.Exceeded:
			key := "C10/import-cycle/file"
			if textHasSnippetCycleShape(in) {
				key = "C10/import-cycle/snippet"
			}
			res.Outcomes["steps-exceeded"]++
			res.viol(key, fmt.Sprintf("parser executed more than %d import expansions for a %d-byte input and was still going: it does not terminate", bound, len(in)), i, wit())
		case o.Panic != "":
			res.Outcomes["panic"]++
			w := wit()
			w["panic"], w["stack"] = o.Panic, o.Stack
			res.viol("C10/panic/"+panicSite(o.Stack), "casketfile.Parse panicked: "+o.Panic, i, w)
		case o.Err != nil:
			res.Counts["errors"]++
			res.Outcomes["err: "+normErr(o.Err.Error(), root)]++
			ok, zero := errNamesFileLine(o.Err.Error(), mainName, root)
			if !ok {
				w := wit()
				w["error"] = o.Err.Error()
				if zero {
					res.viol("C10/error-line-zero", "error names line 0 (no line): "+o.Err.Error(), i, w)
				} else {
					res.viol("C10/error-without-file-line", "error does not name a file and line: "+o.Err.Error(), i, w)
				}
			}
		default:
			nt := 0
			for _, b := range o.Blocks {
				for _, t := range b.Tokens {
					nt += len(t)
				}
			}
			res.Counts["accepted"]++
			res.Outcomes[fmt.Sprintf("ok: blocks=%d tokens=%d", min(len(o.Blocks), 4), min(nt, 6))]++
			trivial = len(o.Blocks) == 0
			if o.Steps > 0 {
				res.Counts["accepted_with_imports"]++
			}
		}
		if o.Steps > res.Counts["max_steps"] && !o.Exceeded {
			res.Counts["max_steps"] = o.Steps
		}
		if !trivial {
			var h [8]byte
			binary.LittleEndian.PutUint64(h[:], fnv64(in))
			res.NT = append(res.NT, h[:]...)
		}
		if len(res.Samples) < 2 && !trivial && i%97 == 3 {
			s := map[string]interface{}{"input": strconv.Quote(string(in)), "kind": kind}
			if o.Err != nil {
				s["error"] = o.Err.Error()
			} else {
				s["blocks"] = len(o.Blocks)
			}
			res.Samples = append(res.Samples, s)
		}
		g.mu.Unlock()
	}
	g.begin(-1)
	g.mu.Lock()
	emit(res)
	return 0
}

func min(a, b int) int {
	if a < b {
		return a
	}
	return b
}

var panicFrameRe = regexp.MustCompile(`casket/casketfile\.([A-Za-z0-9_\.\(\)\*]+)\(`)

func panicSite(stack string) string {
	for _, m := range panicFrameRe.FindAllStringSubmatch(stack, -1) {
		return strings.NewReplacer("(", "", ")", "", "*", "").Replace(m[1])
	}
	return "unknown"
}

// textHasSnippetCycleShape: the input defines a snippet and imports a snippet
// name from inside some snippet body (only used to choose the key).
func textHasSnippetCycleShape(in []byte) bool {
	s := string(in)
	names := regexp.MustCompile(`\(([^\s\)]+)\)`).FindAllStringSubmatch(s, -1)
	for _, n := range names {
		if regexp.MustCompile(`import[ \t"]+` + regexp.QuoteMeta(n[1])).MatchString(s) {
			return true
		}
	}
	return false
}

// ------------------------------------------------------------ mode: fx (b)

type fxResult struct {
	Steps    int64            `json:"steps"`
	Exceeded bool             `json:"exceeded"`
	Err      string           `json:"err,omitempty"`
	Panic    string           `json:"panic,omitempty"`
	Stack    string           `json:"stack,omitempty"`
	Trip     string           `json:"trip,omitempty"`
	Tokens   map[string]int64 `json:"tokens,omitempty"` // text -> occurrences over all blocks
	Keys     map[string]int64 `json:"keys,omitempty"`
	Blocks   int              `json:"blocks"`
}

// args: <mainfile> <bound> <journal>
func subFx(args []string) int {
	quiet()
	installHook()
	mainName := args[0]
	bound, _ := strconv.ParseInt(args[1], 10, 64)
	g := newGuard(args[2])
	g.cpuMax = 60 * time.Second
	g.heapMax = 2 << 30
	res := &fxResult{}
	g.onTrip = func(k string, idx int64) {
		res.Trip = k
		res.Steps = atomic.LoadInt64(&steps)
		b, _ := json.Marshal(res)
		os.Stdout.Write(append(b, '\n'))
	}
	g.watch()
	in, err := os.ReadFile(mainName)
	if err != nil {
		fmt.Fprintln(os.Stderr, err)
		return 3
	}
	os.Chdir(filepath.Dir(mainName))
	g.begin(0)
	o := guardedParse(mainName, in, bound)
	g.mu.Lock()
	res.Steps, res.Exceeded, res.Panic, res.Stack = o.Steps, o.Exceeded, o.Panic, o.Stack
	if o.Err != nil {
		res.Err = o.Err.Error()
	}
	res.Blocks = len(o.Blocks)
	res.Tokens, res.Keys = map[string]int64{}, map[string]int64{}
	for _, b := range o.Blocks {
		for _, k := range b.Keys {
			res.Keys[k]++
		}
		for _, ts := range b.Tokens {
			for _, t := range ts {
				if strings.HasPrefix(t.Text, "leaf_") || t.Text == "import" {
					res.Tokens[t.Text]++
				}
			}
		}
	}
	b, _ := json.Marshal(res)
	os.Stdout.Write(append(b, '\n'))
	return 0
}

// ------------------------------------------------------------ mode: rt (c)

func walkTokens(name string, toks []casketfile.Token) []wline {
	var out []wline
	d := casketfile.NewDispenserTokens(name, toks)
	for d.Next() {
		l := wline{Name: d.Val(), Args: []string{}}
		l.Args = append(l.Args, d.RemainingArgs()...)
		for d.NextBlock() {
			s := wline{Name: d.Val(), Args: []string{}}
			s.Args = append(s.Args, d.RemainingArgs()...)
			nest := d.Nesting()
			for d.NextBlockNesting(nest) {
				ss := wline{Name: d.Val(), Args: []string{}}
				ss.Args = append(ss.Args, d.RemainingArgs()...)
				s.Sub = append(s.Sub, ss)
			}
			l.Sub = append(l.Sub, s)
		}
		out = append(out, l)
		if len(out) > 10000 {
			break
		}
	}
	return out
}

func gotOf(blocks []casketfile.ServerBlock, mainName string) []wblock {
	var out []wblock
	for _, b := range blocks {
		wb := wblock{Keys: b.Keys, Dirs: map[string][]wline{}}
		for dir, toks := range b.Tokens {
			wb.Dirs[dir] = walkTokens(mainName, toks)
		}
		out = append(out, wb)
	}
	return out
}

func normBlocks(bs []wblock) []wblock {
	// blocks without a non-empty key (the only key written was "" or an unset
	// variable) may or may not be handed out: not compared
	var kept []wblock
	for _, b := range bs {
		named := false
		for _, k := range b.Keys {
			named = named || k != ""
		}
		if named {
			kept = append(kept, b)
		}
	}
	bs = kept
	for i := range bs {
		if bs[i].Keys == nil {
			bs[i].Keys = []string{}
		}
		for k, ls := range bs[i].Dirs {
			if len(ls) == 0 {
				delete(bs[i].Dirs, k)
			}
		}
	}
	if bs == nil {
		bs = []wblock{}
	}
	return bs
}

// describe the first difference
func firstDiff(want, got []wblock) string {
	if len(want) != len(got) {
		return fmt.Sprintf("%d server blocks written, %d returned", len(want), len(got))
	}
	for i := range want {
		if !reflect.DeepEqual(want[i].Keys, got[i].Keys) {
			return fmt.Sprintf("block %d: keys written %q, returned %q", i, want[i].Keys, got[i].Keys)
		}
		var names []string
		for k := range want[i].Dirs {
			names = append(names, k)
		}
		for k := range got[i].Dirs {
			if _, ok := want[i].Dirs[k]; !ok {
				names = append(names, k)
			}
		}
		sort.Strings(names)
		for _, k := range names {
			w, g := want[i].Dirs[k], got[i].Dirs[k]
			if !reflect.DeepEqual(w, g) {
				wj, _ := json.Marshal(w)
				gj, _ := json.Marshal(g)
				return fmt.Sprintf("block %d directive %q: written %s, dispenser walk sees %s", i, k, clip(string(wj), 600), clip(string(gj), 600))
			}
		}
	}
	return ""
}

func clip(s string, n int) string {
	if len(s) > n {
		return s[:n] + "…"
	}
	return s
}

// args: <seed> <lo> <hi> <workdir> <journal>
func subRT(args []string) int {
	quiet()
	installHook()
	seed, _ := strconv.ParseUint(args[0], 10, 64)
	lo, _ := strconv.ParseInt(args[1], 10, 64)
	hi, _ := strconv.ParseInt(args[2], 10, 64)
	work := args[3]
	g := newGuard(args[4])
	res := &childResult{Mode: "rt", Lo: lo, Hi: hi, Done: lo, Counts: map[string]int64{}, Feats: map[string]int64{}}
	g.onTrip = func(k string, idx int64) {
		res.Trip, res.TripIdx = k, idx
		emit(res)
	}
	g.watch()
	for i := lo; i < hi; i++ {
		root := filepath.Join(work, fmt.Sprintf("case-%d", i))
		rc := genCase(seed, int(i), root)
		if len(rc.Files) > 1 {
			os.MkdirAll(root, 0o755)
			for p, content := range rc.Files {
				fp := filepath.Join(root, p)
				if d := filepath.Dir(fp); d != root {
					os.MkdirAll(d, 0o755)
				}
				os.WriteFile(fp, []byte(content), 0o644)
			}
		}
		mainName := filepath.Join(root, "Casketfile")
		SetCaseEnv(int(i))
		g.begin(i)
		o := guardedParse(mainName, []byte(rc.Files["Casketfile"]), int64(rc.Imports))
		g.mu.Lock()
		res.Done = i + 1
		res.Counts["evaluated"]++
		res.Counts["import_statements_expected"] += int64(rc.Imports)
		res.Counts["import_expansions_observed"] += o.Steps
		for _, f := range rc.Features {
			res.Feats[f]++
		}
		wit := func() map[string]interface{} {
			return map[string]interface{}{"files": rc.Files, "root": root, "written": rc.Want, "features": rc.Features, "index": i, "seed": seed,
				"imports_expected": rc.Imports, "imports_observed": o.Steps}
		}
		placeKey := func() string {
			switch {
			case rc.Reuse == "snippet":
				return "C10/snippet-twice-merges-lines"
			case rc.Reuse != "":
				return "C10/file-twice-merges-lines"
			case rc.SnipUses > 0:
				return "C10/snippet-lines-out-of-order"
			case rc.FileUses > 0:
				return "C10/roundtrip/file-import"
			}
			return "C10/roundtrip/inline"
		}
		keep := false
		// differential diagnosis of a failing case that uses placement: if
		// the same AST rendered into one file fails too, the defect is not
		// about snippets / imports and is keyed (and witnessed) as inline.
		diagnose := func(key string, what string, w map[string]interface{}) {
			keep = true
			if len(rc.Files) > 1 || rc.SnipUses > 0 {
				rc0 := genCaseOpt(seed, int(i), root, true)
				o0 := guardedParse(mainName, []byte(rc0.Files["Casketfile"]), 0)
				bad := ""
				switch {
				case o0.Panic != "":
					bad = "panic: " + o0.Panic
				case o0.Err != nil:
					bad = "rejected: " + strings.ReplaceAll(o0.Err.Error(), root, "<root>")
				default:
					bad = firstDiff(normBlocks(rc0.Want), normBlocks(gotOf(o0.Blocks, mainName)))
				}
				if bad != "" {
					k := "C10/roundtrip/inline"
					if o0.Err != nil {
						k += "/rejected"
					}
					res.viol(k, "well-formed configuration (single file, no imports) does not come back as written: "+bad, i,
						map[string]interface{}{"files": rc0.Files, "written": rc0.Want, "features": rc0.Features, "index": i, "seed": seed, "found_via_placed_rendering": rc.Features})
					return
				}
				w["same_ast_inline"] = "parses back exactly as written"
			}
			res.viol(key, what, i, w)
		}
		switch {
		case o.Exceeded:
			res.viol("C10/termination/steps-exceed-bound", fmt.Sprintf("an acyclic configuration with %d import statements made the parser execute more than that many expansions", rc.Imports), i, wit())
			keep = true
		case o.Panic != "":
			w := wit()
			w["panic"], w["stack"] = o.Panic, o.Stack
			res.viol("C10/panic/"+panicSite(o.Stack), "casketfile.Parse panicked on a well-formed configuration: "+o.Panic, i, w)
			keep = true
		case o.Err != nil:
			w := wit()
			w["error"] = o.Err.Error()
			diagnose(placeKey()+"/rejected", "well-formed configuration rejected: "+strings.ReplaceAll(o.Err.Error(), root, "<root>"), w)
		default:
			got := normBlocks(gotOf(o.Blocks, mainName))
			want := normBlocks(rc.Want)
			if d := firstDiff(want, got); d != "" {
				w := wit()
				w["returned"] = got
				diagnose(placeKey(), "parsed structure differs from what was written: "+d, w)
			} else {
				res.Counts["roundtrip_ok"]++
			}
		}
		var h [8]byte
		var all []string
		for p, c := range rc.Files {
			all = append(all, p+"\x00"+c)
		}
		sort.Strings(all)
		binary.LittleEndian.PutUint64(h[:], fnv64([]byte(strings.Join(all, "\x01"))))
		res.NT = append(res.NT, h[:]...)
		if len(res.Samples) < 1 && len(rc.Files) > 1 && i%7 == 1 {
			res.Samples = append(res.Samples, map[string]interface{}{"files": rc.Files, "features": rc.Features})
		}
		g.mu.Unlock()
		if len(rc.Files) > 1 && !keep {
			os.RemoveAll(root)
		}
	}
	g.begin(-1)
	g.mu.Lock()
	emit(res)
	return 0
}
