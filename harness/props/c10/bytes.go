package c10

// Input generators of the totality monitor (a): exhaustive short strings over
// the structural alphabet, longer random strings over the same alphabet,
// mutations of a corpus (the repository's own test inputs, copied here, and
// rendered ASTs of monitor (c)) and random bytes. Each input is a pure
// function of (kind, seed, index).

import (
	"strings"

	"verifharness/lib"
)

var alphabet = []string{"{", "}", "\"", "\\", "#", " ", "\n", "\r\n", "a", ",", "import", "(", ")", "{$X}", "{%X%}", "\uFEFF", "\xff"}

// exhaustive strings of length <= maxLen symbols, ordered by length
func exhCount(maxLen int) int64 {
	n, p := int64(0), int64(1)
	for l := 0; l <= maxLen; l++ {
		n += p
		p *= int64(len(alphabet))
	}
	return n
}

func exhString(idx int64) []byte {
	p := int64(1)
	l := 0
	for idx >= p {
		idx -= p
		p *= int64(len(alphabet))
		l++
	}
	var sb strings.Builder
	syms := make([]int, l)
	for k := l - 1; k >= 0; k-- {
		syms[k] = int(idx % int64(len(alphabet)))
		idx /= int64(len(alphabet))
	}
	for _, s := range syms {
		sb.WriteString(alphabet[s])
	}
	return []byte(sb.String())
}

// inputs copied from casketfile/parse_test.go, lexer_test.go, dispenser_test.go
var corpus = []string{
	"localhost",
	"localhost\ndir1",
	"localhost:1234\ndir1 foo bar",
	"localhost {\n  dir1\n}",
	"localhost:1234 {\n  dir1 foo bar\n  dir2\n}",
	"http://localhost https://localhost\ndir1 foo bar",
	"http://localhost https://localhost {\n  dir1 foo bar\n}",
	"http://localhost, https://localhost {\n  dir1 foo bar\n}",
	"http://localhost, {\n}",
	"host1:80, http://host2.com\ndir1 foo bar\ndir2 baz",
	"http://host1.com,\nhttp://host2.com,\nhttps://host3.com",
	"http://host1.com:1234, https://host2.com\ndir1 foo {\n  bar baz\n}\ndir2",
	"127.0.0.1\ndir1 {\n  bar baz\n}\ndir2 {\n  foo bar\n}",
	"localhost\ndir1 {\n  foo",
	"localhost\ndir1 {\n}",
	"localhost\ndir1 {\n} }",
	"localhost\ndir1 {\n  nested {\n    foo\n  }\n}\ndir2 foo bar",
	"localhost\nfoo {\n  foo {\n    bar {\n    }\n  }\n}",
	"",
	"localhost\ndir1 arg1\nimport inc/leaf.conf",
	"import inc/two.conf",
	"import inc/leaf.conf inc/two.conf",
	"import inc/not_found.txt",
	"\"\"",
	"import }{$\"",
	"import /*/*.txt",
	"import /???/?*?o",
	"import /??",
	"import /[a-z]",
	"import {$}",
	"import {%}",
	"import {$$}",
	"import {%%}",
	"localhost:1234, http://host2,",
	"http://host1.com, http://host2.com {\n}\n\nhttps://host3.com, https://host4.com {\n}",
	"import inc/*.conf",
	"import notfound/*",
	"import notfound/file.conf",
	"localhost\ndir1 {$VERIF_C10_A}\n",
	"localhost\ndir1 {$VERIF_C10_S} x\n",
	"{$VERIF_C10_A}:1234 {\n dir1 {%VERIF_C10_B%} {$VERIF_C10_U}\n}",
	"(common) {\n gzip foo\n errors stderr\n}\nhttp://example.com {\n import common\n}\n",
	"(common) {\n gzip foo\n}\n(common) {\n gzip bar\n}\n",
	"(a) {\n import inc/leaf.conf\n}\n(b) {\n import a\n x y\n}\nh {\n proxy / b {\n  import b\n  import b\n }\n}",
	"host:123 { directive }",
	"host:123 {\n\t#comment\n\tdirective\n\t# comment\n\tfoobar # another comment\n}",
	"a \"quoted value\" b\nfoobar",
	"A \"quoted \\\"value\\\" inside\" B",
	"\"don't\\escape\"",
	"\"don't\\\\escape\"",
	"A \"quoted value with line\n\t\t\t\t\tbreak inside\" {\n\t\t\t\t\t\tfoobar\n\t\t\t\t\t}",
	"\"C:\\php\\php-cgi.exe\"",
	"empty \"\" string",
	"skip those\r\nCR characters",
	"\xEF\xBB\xBF:8080",
	"dir1 arg1\ndir2 arg2 arg3\ndir3",
	"foobar1 {\n\tsub1 arg1\n\tsub2\n}\nfoobar2 {\n}",
	"dir1 arg1 {$FOO}\nimport a\n",
	"h {\n d \"unterminated\n}\n",
	"h {\n d x {\n  e {\n   f\n }\n}\n",
	"localhost:1234, http://host2,\nimport notfound/*\n",
	"a,\nimport inc/none-?.conf",
	"(s) {\nimport s\n}\nimport s\n",
	"(s) {\n x y\n import t\n}\n(t) {\n import s\n}\nh {\n d {\n  import s\n }\n}\n",
	"h {\n d a#b c\n}\n",
}

var injectLines = []string{
	"import a", "import inc/*.conf", "import inc/leaf.conf", "import nosuch.conf", "import s", "import \"", "import",
	"import a b", "import {$X}", "import {%X%}", "import .", "import inc", "import inc/", "import *", "import s s",
	"(s) {", "}", "{", "import \"inc/leaf.conf\"", "import t", "(t) {\nimport s\n}", "(s) {\nimport s\n}", "(s) {\n a b\n import t\n}",
}

func baseText(r *lib.Rng, seed uint64, root string) string {
	if r.Chance(1, 3) {
		// a rendered AST of monitor (c), inline placement only
		rc := genCase(seed^0xA5A5, r.Intn(1<<20)*4, root)
		return rc.Files["Casketfile"]
	}
	return corpus[r.Intn(len(corpus))]
}

func splitLinesKeep(s string) []string {
	return strings.SplitAfter(s, "\n")
}

func mutate(r *lib.Rng, s string, seed uint64, root string) string {
	nops := 1 + r.Intn(3)
	for k := 0; k < nops; k++ {
		switch r.Intn(12) {
		case 0: // splice a chunk of another text
			o := baseText(r, seed, root)
			if len(o) > 0 {
				a := r.Intn(len(o))
				b := a + r.Intn(len(o)-a+1)
				p := r.Intn(len(s) + 1)
				s = s[:p] + o[a:b] + s[p:]
			}
		case 1: // truncate
			if len(s) > 0 {
				s = s[:r.Intn(len(s))]
			}
		case 2: // duplicate a line
			ls := splitLinesKeep(s)
			i := r.Intn(len(ls))
			l := ls[i]
			if !strings.HasSuffix(l, "\n") {
				l += "\n"
			}
			ls = append(ls[:i+1], append([]string{l}, ls[i+1:]...)...)
			s = strings.Join(ls, "")
		case 3: // delete a line
			ls := splitLinesKeep(s)
			i := r.Intn(len(ls))
			ls = append(ls[:i], ls[i+1:]...)
			s = strings.Join(ls, "")
		case 4: // flip / drop / add a quote or brace
			var pos []int
			for i := 0; i < len(s); i++ {
				if s[i] == '"' || s[i] == '{' || s[i] == '}' {
					pos = append(pos, i)
				}
			}
			rep := r.Pick([]string{"\"", "{", "}", "", "\\\"", " { ", " } ", "\\"})
			if len(pos) > 0 && r.Chance(3, 4) {
				p := pos[r.Intn(len(pos))]
				s = s[:p] + rep + s[p+1:]
			} else {
				p := r.Intn(len(s) + 1)
				s = s[:p] + rep + s[p:]
			}
		case 5, 6: // inject an import (or snippet scaffolding) as a line
			ls := splitLinesKeep(s)
			i := r.Intn(len(ls) + 1)
			inj := r.Pick(injectLines) + "\n"
			if i > 0 && !strings.HasSuffix(ls[i-1], "\n") {
				inj = "\n" + inj
			}
			ls = append(ls[:i], append([]string{inj}, ls[i:]...)...)
			s = strings.Join(ls, "")
		case 7: // wrap some lines into a snippet and import it afterwards
			ls := splitLinesKeep(s)
			i := r.Intn(len(ls))
			j := i + r.Intn(len(ls)-i+1)
			name := r.Pick([]string{"s", "t", "a"})
			mid := strings.Join(ls[i:j], "")
			if mid != "" && !strings.HasSuffix(mid, "\n") {
				mid += "\n"
			}
			tail := "import " + name + "\n"
			if r.Chance(1, 3) {
				mid += "import " + r.Pick([]string{"s", "t", "a"}) + "\n"
			}
			s = strings.Join(ls[:i], "") + "(" + name + ") {\n" + mid + "}\n" + tail + strings.Join(ls[j:], "")
		case 8: // swap two lines
			ls := splitLinesKeep(s)
			i, j := r.Intn(len(ls)), r.Intn(len(ls))
			ls[i], ls[j] = ls[j], ls[i]
			s = strings.Join(ls, "")
		case 9: // insert an alphabet symbol
			p := r.Intn(len(s) + 1)
			s = s[:p] + r.Pick(alphabet) + s[p:]
		case 10: // join lines / break a line
			if r.Bool() {
				if i := strings.IndexByte(s, '\n'); i >= 0 {
					k := r.Intn(strings.Count(s, "\n"))
					idx := 0
					for c := 0; c <= k; c++ {
						n := strings.IndexByte(s[idx:], '\n')
						if c == k {
							s = s[:idx+n] + " " + s[idx+n+1:]
							break
						}
						idx += n + 1
					}
				}
			} else if i := strings.IndexByte(s, ' '); i >= 0 {
				s = s[:i] + "\n" + s[i+1:]
			}
		case 11: // overwrite a byte
			if len(s) > 0 {
				p := r.Intn(len(s))
				s = s[:p] + string([]byte{byte(r.Intn(256))}) + s[p+1:]
			}
		}
		if len(s) > 6000 {
			s = s[:6000]
		}
	}
	return s
}

// bytesCase returns input number idx of the given kind.
func bytesCase(kind string, seed uint64, idx int64, root string) []byte {
	switch kind {
	case "exh":
		return exhString(idx)
	case "corpus":
		return []byte(corpus[idx])
	}
	r := lib.NewRng(seed*0x9E3779B97F4A7C15 ^ uint64(idx)*0xBF58476D1CE4E5B9 ^ fnv64([]byte(kind)))
	switch kind {
	case "long": // longer strings over the structural alphabet
		n := 6 + r.Intn(10)
		var sb strings.Builder
		for i := 0; i < n; i++ {
			sb.WriteString(alphabet[r.Intn(len(alphabet))])
		}
		return []byte(sb.String())
	case "mut":
		return []byte(mutate(r, baseText(r, seed, root), seed, root))
	default: // random bytes, biased towards the structural ones
		n := r.Intn(64)
		b := r.Bytes(n)
		for i := range b {
			if r.Chance(1, 2) {
				const structural = "{}\"\\# \n\r\ta,()$%"
				b[i] = structural[r.Intn(len(structural))]
			}
		}
		return b
	}
}

// the fixture directory all (a) inputs are parsed in
func bytesFixtureFiles() map[string]string {
	return map[string]string{
		"a":             "a {\n a a\n}\n",
		"inc/leaf.conf": "leafdir x y\n",
		"inc/two.conf":  "two {\n x\n}\nother z\n",
	}
}
