// Package c10: Casketfile parsing is total, terminating and
// structure-preserving.
//
// Three monitors, all executing the real casketfile.Parse in child processes:
//
//	(a) totality on bytes: exhaustive short strings over the structural
//	    alphabet, longer strings over it, corpus mutations, random bytes.
//	    Oracle: Parse returns; no panic; an error names a file and a line.
//	(b) termination by logical steps: fixture directories with acyclic and
//	    cyclic import graphs; the verifhook point at the top of doImport
//	    counts expansions against the bound computed from the graph.
//	(c) round trip: random ASTs rendered with arbitrary layout and placement
//	    (inline / snippet / imported file / glob, nested, used twice) must
//	    come back, through a dispenser walk, exactly as written.
package c10

import (
	"encoding/json"
	"fmt"
	"os"
	"path/filepath"
	"sort"
	"strings"
	"sync"
	"sync/atomic"
	"time"

	"verifharness/lib"
)

func init() {
	lib.Register(&lib.Prop{ID: "C10", Level: "exploration", Run: run,
		Sub: map[string]func([]string) int{"bytes": subBytes, "fx": subFx, "rt": subRT}})
}

const parallel = 12

func childEnv() []string {
	return append(envList(), "X=a", "GOMAXPROCS=2", "GOGC=100")
}

func run(c *lib.Ctx) {
	c.Rule("(a) an input is non-trivial when the parser returned an error or at least one server block (key: the input bytes); " +
		"(b) every import-graph fixture that executes at least one import statement (key: fixture name); " +
		"(c) every rendered configuration, key = contents of all its files (ASTs with 1-3 blocks, 0-6 directives, sub-blocks to depth 2, quoted/multi-line/escaped/env tokens; layouts vary whitespace, comments, CRLF, BOM, brace position; 3 of 4 renderings move lines into snippets, files and globs)")
	c.Assume("environment values used for placeholders contain no newline, no braces and no placeholder syntax")
	c.Assume("structural conventions of the format are respected by the renderer: a sub-block's '{' ends its line, a closing '}' stands on its own line, comments are preceded by whitespace, tokens that are exactly '{' or '}' are never written as arguments")
	c.Assume("(a) at most a handful of import statements per mutated input: a terminating parse of such an input needs far fewer than the 2000 expansions used as the step bound")
	c.Assume("child CPU-time / heap guards (40 CPU-seconds or 3 GiB for one input of at most 6 kB) are amounts of work, not wall-clock time")
	runFixtures(c)
	runRoundTrip(c)
	runBytes(c)
	c.Floor("b_fixtures_run", 90)
	c.Floor("b_cyclic_fixtures_run", 40)
	c.Floor("b_import_expansions_observed", 200) // proves the doImport hook is compiled in and counted
	c.Floor("c_roundtrip_evaluated", int64(c.Pick(15000, 300000)))
	c.Floor("c_import_expansions_observed", 1000)
	c.Floor("c_feat_snippet", 500)
	c.Floor("c_feat_file-import", 500)
	c.Floor("c_feat_multiline-token", 500)
	c.Floor("c_feat_env", 500)
	c.Floor("c_feat_env-changing-between-parses", 200)
	c.Floor("a_evaluated", int64(c.Pick(250000, 3000000)))
	c.Floor("a_errors", 1000)
	c.Floor("a_accepted", 1000)
	if c.Get("harness_child_failures") > 0 {
		c.Floor("harness_children_without_failure", 1)
	}
}

// ------------------------------------------------------------------ batches

type batch struct {
	mode   string
	label  string
	lo, hi int64
	args   func(lo, hi int64, journal string) []string
	regen  func(idx int64) interface{} // witness of a case, for crashes
}

func lastJSONLine(out []byte, v interface{}) bool {
	lines := strings.Split(strings.TrimSpace(string(out)), "\n")
	for i := len(lines) - 1; i >= 0; i-- {
		if strings.HasPrefix(lines[i], "{") && json.Unmarshal([]byte(lines[i]), v) == nil {
			return true
		}
	}
	return false
}

// runBatches executes batches in parallel children; a child that dies or
// trips is attributed to the journalled case and the rest of its batch is
// resumed in a fresh child.
func runBatches(c *lib.Ctx, bs []batch, handle func(b batch, r *childResult)) {
	var wg sync.WaitGroup
	sem := make(chan struct{}, parallel)
	var seq, trips int64
	var mu sync.Mutex
	for _, b := range bs {
		wg.Add(1)
		sem <- struct{}{}
		go func(b batch) {
			defer wg.Done()
			defer func() { <-sem }()
			lo := b.lo
			// a handful of exhausted guards settle the verdict; going on would only
			// burn the guard budget once per affected case
			for attempts := 0; lo < b.hi && attempts < 50 && atomic.LoadInt64(&trips) < 6; attempts++ {
				mu.Lock()
				seq++
				jp := filepath.Join(c.Dir, fmt.Sprintf("journal-%s-%d.bin", b.mode, seq))
				mu.Unlock()
				c.Journal("C10 %s %s [%d,%d)", b.mode, b.label, lo, b.hi)
				sr := c.Sub(b.mode, b.args(lo, b.hi, jp), nil, childEnv(), 30*time.Minute)
				var res childResult
				ok := lastJSONLine(sr.Stdout, &res)
				if ok {
					handle(b, &res)
				}
				switch {
				case ok && res.Trip != "":
					c.Violation("C10/nontermination/"+res.Trip,
						fmt.Sprintf("parsing one input exhausted the child's %s guard (the parse neither returned nor failed)", res.Trip),
						map[string]interface{}{"case": b.regen(res.TripIdx), "mode": b.mode, "label": b.label, "index": res.TripIdx})
					c.Eval(1)
					atomic.AddInt64(&trips, 1)
					lo = res.TripIdx + 1
				case ok && res.Done >= b.hi:
					lo = b.hi
				default:
					idx := readJournal(jp)
					crashed, frame, tail := sr.Crash()
					switch {
					case crashed && idx >= 0 && frame == "":
						// no casket frame on the stack: the harness itself failed
						c.Count("harness_child_failures", 1)
						c.Inconclusive(fmt.Sprintf("%s %s case %d: child died outside casket code: %s (stderr: %s)", b.mode, b.label, idx, firstLine(tail), sr.StderrPath))
						lo = idx + 1
					case crashed && idx >= 0:
						c.Eval(1)
						c.Violation("C10/crash/"+frame, "child process running the parser died: "+firstLine(tail),
							map[string]interface{}{"case": b.regen(idx), "mode": b.mode, "label": b.label, "index": idx, "stderr": clip(tail, 3000)})
						lo = idx + 1
					case sr.TimedOut && idx >= 0:
						c.Inconclusive(fmt.Sprintf("%s %s case %d: wall-clock watchdog fired without a logical verdict (dump: %s)", b.mode, b.label, idx, sr.StderrPath))
						lo = idx + 1
					default:
						c.Inconclusive(fmt.Sprintf("%s %s [%d,%d): child ended with code %d and no result (stderr: %s)", b.mode, b.label, lo, b.hi, sr.Code, sr.StderrPath))
						lo = b.hi
					}
				}
				os.Remove(jp)
			}
		}(b)
	}
	wg.Wait()
}

func firstLine(s string) string {
	for _, l := range strings.Split(s, "\n") {
		if strings.Contains(l, "panic:") || strings.Contains(l, "fatal error:") {
			return strings.TrimSpace(l)
		}
	}
	if i := strings.IndexByte(s, '\n'); i > 0 {
		return s[:i]
	}
	return s
}

func absorb(c *lib.Ctx, prefix string, r *childResult) {
	c.Eval(int(r.Counts["evaluated"]))
	for k, v := range r.Counts {
		if strings.HasPrefix(k, "viol:") {
			continue
		}
		if k == "max_steps" {
			c.Max(prefix+k, v)
			continue
		}
		c.Count(prefix+k, v)
	}
	for i := 0; i+8 <= len(r.NT); i += 8 {
		c.Nontrivial(prefix + string(r.NT[i:i+8]))
	}
	for f, n := range r.Feats {
		c.Count(prefix+"feat_"+f, n)
	}
	// the child keeps at most three witnesses per key; further occurrences
	// are only counted.
	for _, v := range r.Viols {
		c.Violation(v.Key, v.What, v.Witness)
	}
}

// ------------------------------------------------------------------ (a)

func runBytes(c *lib.Ctx) {
	root := filepath.Join(c.Dir, "a")
	for p, content := range bytesFixtureFiles() {
		fp := filepath.Join(root, p)
		os.MkdirAll(filepath.Dir(fp), 0o755)
		os.WriteFile(fp, []byte(content), 0o644)
	}
	type kd struct {
		kind string
		n    int64
		seed uint64
	}
	exhLen := c.Pick(4, 5)
	kinds := []kd{
		{"corpus", int64(len(corpus)), 0},
		{"exh", exhCount(exhLen), 0},
		{"long", int64(c.Pick(100000, 1500000)), c.Seed},
		{"mut", int64(c.Pick(90000, 1000000)), c.Seed},
		{"rnd", int64(c.Pick(30000, 500000)), c.Seed},
	}
	c.Set("a_exhaustive_max_symbols", exhLen)
	c.Set("a_alphabet", fmt.Sprintf("%q", alphabet))
	bsz := int64(c.Pick(12000, 60000))
	var bs []batch
	for _, k := range kinds {
		k := k
		for lo := int64(0); lo < k.n; lo += bsz {
			hi := lo + bsz
			if hi > k.n {
				hi = k.n
			}
			bs = append(bs, batch{mode: "bytes", label: k.kind, lo: lo, hi: hi,
				args: func(lo, hi int64, jp string) []string {
					return []string{k.kind, fmt.Sprint(k.seed), fmt.Sprint(lo), fmt.Sprint(hi), root, jp}
				},
				regen: func(idx int64) interface{} {
					in := bytesCase(k.kind, k.seed, idx, root)
					return map[string]interface{}{"input": string(in), "input_quoted": fmt.Sprintf("%q", in), "kind": k.kind, "index": idx}
				}})
		}
	}
	outcomes := map[string]int64{}
	var mu sync.Mutex
	runBatches(c, bs, func(b batch, r *childResult) {
		absorb(c, "a_", r)
		mu.Lock()
		for k, v := range r.Outcomes {
			outcomes[k] += v
		}
		mu.Unlock()
		for _, s := range r.Samples {
			c.SampleTag("a-bytes-"+b.label, 1, s)
		}
	})
	c.Set("a_distinct_outcome_classes", len(outcomes))
	// keep the most frequent outcome classes in the evidence
	type kv struct {
		K string
		V int64
	}
	var top []kv
	for k, v := range outcomes {
		top = append(top, kv{k, v})
	}
	sort.Slice(top, func(i, j int) bool { return top[i].V > top[j].V || (top[i].V == top[j].V && top[i].K < top[j].K) })
	if len(top) > 40 {
		top = top[:40]
	}
	m := map[string]int64{}
	for _, t := range top {
		m[t.K] = t.V
	}
	c.Set("a_outcome_classes_top", m)
}

// ------------------------------------------------------------------ (b)

func runFixtures(c *lib.Ctx) {
	fxs := allFixtures(!c.Quick())
	var wg sync.WaitGroup
	sem := make(chan struct{}, parallel)
	for i, f := range fxs {
		wg.Add(1)
		sem <- struct{}{}
		go func(i int, f *fixture) {
			defer wg.Done()
			defer func() { <-sem }()
			runFixture(c, i, f)
		}(i, f)
	}
	wg.Wait()
}

func runFixture(c *lib.Ctx, i int, f *fixture) {
	root := filepath.Join(c.Dir, "b", fmt.Sprintf("fx%03d", i))
	for p, content := range f.Files {
		fp := filepath.Join(root, p)
		os.MkdirAll(filepath.Dir(fp), 0o755)
		os.WriteFile(fp, []byte(content), 0o644)
	}
	mainName := filepath.Join(root, "Casketfile")
	jp := filepath.Join(root, ".journal")
	c.Journal("C10 fx %s", f.Name)
	sr := c.Sub("fx", []string{mainName, fmt.Sprint(f.Bound), jp}, nil, childEnv(), 20*time.Minute)
	os.Remove(jp)
	c.Eval(1)
	c.Count("b_fixtures_run", 1)
	if f.Cyclic {
		c.Count("b_cyclic_fixtures_run", 1)
	}
	c.Nontrivial("b/" + f.Name)
	wit := map[string]interface{}{"fixture": f.Name, "files": f.Files, "root": root, "cyclic": f.Cyclic, "context": f.Ctx,
		"step_bound": f.Bound}
	var r fxResult
	if !lastJSONLine(sr.Stdout, &r) {
		if crashed, frame, tail := sr.Crash(); crashed {
			wit["stderr"] = clip(tail, 3000)
			c.Violation("C10/crash/"+frame, "child process parsing fixture "+f.Name+" died: "+firstLine(tail), wit)
			return
		}
		c.Inconclusive(fmt.Sprintf("fixture %s: child ended with code %d, timed out=%v, no result (stderr %s)", f.Name, sr.Code, sr.TimedOut, sr.StderrPath))
		return
	}
	c.Count("b_import_expansions_observed", r.Steps)
	wit["steps_observed"] = r.Steps
	if f.Cyclic {
		c.SampleTag("b-cyclic", 1, map[string]interface{}{"fixture": f.Name, "files": f.Files, "steps": r.Steps, "error": r.Err, "exceeded": r.Exceeded})
	} else {
		c.SampleTag("b-acyclic", 1, map[string]interface{}{"fixture": f.Name, "files": f.Files, "steps": r.Steps, "expected_steps": f.Steps})
	}
	cycleKey := "C10/import-cycle/" + f.CycleKind
	switch {
	case r.Trip != "":
		wit["guard"] = r.Trip
		if f.Cyclic {
			c.Violation(cycleKey, fmt.Sprintf("import cycle: the parse exhausted the %s guard after %d expansions without returning", r.Trip, r.Steps), wit)
		} else {
			c.Violation("C10/nontermination/"+r.Trip, fmt.Sprintf("acyclic fixture exhausted the %s guard", r.Trip), wit)
		}
	case r.Exceeded:
		c.Count("b_step_bound_exceeded", 1)
		if f.Cyclic {
			c.Violation(cycleKey, fmt.Sprintf("import cycle is expanded without end: more than %d expansions executed (a parser that refuses a source already being expanded needs at most %d) and the call was still running", f.Bound, f.Bound), wit)
		} else {
			c.Violation("C10/termination/steps-exceed-bound", fmt.Sprintf("acyclic import graph needs exactly %d expansions, the parser executed more", f.Steps), wit)
		}
	case r.Panic != "":
		wit["panic"], wit["stack"] = r.Panic, r.Stack
		c.Violation("C10/panic/"+panicSite(r.Stack), "casketfile.Parse panicked: "+r.Panic, wit)
	case f.Cyclic:
		if r.Err == "" {
			c.Count("b_cyclic_accepted", 1)
			wit["tokens"] = r.Tokens
			wit["keys"] = r.Keys
			if r.Tokens["import"] > 0 || r.Keys["import"] > 0 {
				c.Violation("C10/snippet-lines-out-of-order", "an import statement at the start of a snippet body was not recognised (it came back as a literal 'import' token or key)", wit)
			} else {
				c.Violation("C10/import-cycle/accepted", "a cyclic import graph was accepted without an error", wit)
			}
			return
		}
		c.Count("b_cyclic_rejected_with_error", 1)
		wit["error"] = r.Err
		if ok, _ := errNamesFileLine(r.Err, mainName, root); !ok {
			c.Violation("C10/error-without-file-line", "import-cycle error does not name a file and line: "+r.Err, wit)
		}
	default: // acyclic, returned
		if r.Err != "" {
			wit["error"] = r.Err
			c.Violation("C10/acyclic-import-rejected", "acyclic import graph rejected: "+strings.ReplaceAll(r.Err, root, "<root>"), wit)
			return
		}
		got := map[string]int64{}
		for k, v := range r.Tokens {
			if strings.HasPrefix(k, "leaf_") {
				got[k] = v
			}
		}
		want := map[string]int64{}
		for k, v := range f.Leaves {
			want[k] = int64(v)
		}
		wit["leaves_expected"], wit["leaves_returned"], wit["steps_expected"] = want, got, f.Steps
		if fmt.Sprint(want) != fmt.Sprint(got) || r.Tokens["import"] > 0 {
			key := "C10/import-expansion-wrong"
			for _, s := range f.Srcs {
				if isSnip(s.Name) {
					key = "C10/snippet-lines-out-of-order"
				}
			}
			c.Violation(key, fmt.Sprintf("imported lines lost or not expanded: leaf directives expected %v, returned %v, literal import tokens %d", want, got, r.Tokens["import"]), wit)
			return
		}
		if r.Steps == int64(f.Steps) {
			c.Count("b_acyclic_exact_step_count", 1)
		} else {
			c.Count("b_acyclic_step_count_differs", 1)
		}
	}
}

// ------------------------------------------------------------------ (c)

func runRoundTrip(c *lib.Ctx) {
	n := int64(c.Pick(20000, 400000))
	bsz := int64(c.Pick(1000, 8000))
	work := filepath.Join(c.Dir, "c")
	os.MkdirAll(work, 0o755)
	var bs []batch
	for lo := int64(0); lo < n; lo += bsz {
		hi := lo + bsz
		if hi > n {
			hi = n
		}
		bs = append(bs, batch{mode: "rt", label: "ast", lo: lo, hi: hi,
			args: func(lo, hi int64, jp string) []string {
				return []string{fmt.Sprint(c.Seed), fmt.Sprint(lo), fmt.Sprint(hi), work, jp}
			},
			regen: func(idx int64) interface{} {
				rc := genCase(c.Seed, int(idx), filepath.Join(work, fmt.Sprintf("case-%d", idx)))
				return map[string]interface{}{"files": rc.Files, "index": idx, "features": rc.Features}
			}})
	}
	runBatches(c, bs, func(b batch, r *childResult) {
		absorb(c, "c_", r)
		c.Count("c_roundtrip_evaluated", r.Counts["evaluated"])
		for _, s := range r.Samples {
			c.SampleTag("c-roundtrip", 2, s)
		}
	})
}
