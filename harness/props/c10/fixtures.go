package c10

// Import-graph fixtures for the termination monitor (b): a small language of
// sources (files and snippets) whose items are leaf lines or imports, an exact
// model of how many import expansions an acyclic graph needs, and a finite
// bound for cyclic ones.

import (
	"fmt"
	"path/filepath"
	"sort"
	"strings"
)

type fxSrc struct {
	Name  string   // "Casketfile", "a.conf", "d/x.conf" or "(s1)" for a snippet
	Items []string // "L" = leaf line, "@arg" = import arg
}

type fixture struct {
	Name      string
	Ctx       string // top | block | sub
	Cyclic    bool
	CycleKind string // file | snippet (what closes the cycle)
	Srcs      []fxSrc
	// derived
	Files  map[string]string
	Steps  int            // exact number of import statements executed (acyclic)
	Bound  int            // steps above this while still parsing = non-termination
	Leaves map[string]int // leaf token -> occurrences (acyclic)
}

func isSnip(name string) bool { return strings.HasPrefix(name, "(") }

func leafName(src string) string {
	s := strings.NewReplacer("/", "_", ".", "_", "(", "", ")", "", "*", "").Replace(src)
	return "leaf_" + s
}

func (f *fixture) src(name string) *fxSrc {
	for i := range f.Srcs {
		if f.Srcs[i].Name == name {
			return &f.Srcs[i]
		}
	}
	return nil
}

// resolve models doImport's lookup: snippets first, then a glob relative to
// the directory of the file the import statement is written in (snippets are
// all defined in the main file).
func (f *fixture) resolve(from, arg string) []string {
	if f.src("("+arg+")") != nil {
		return []string{"(" + arg + ")"}
	}
	dir := "."
	if !isSnip(from) {
		dir = filepath.Dir(from)
	}
	pat := filepath.Clean(filepath.Join(dir, arg))
	var out []string
	for _, s := range f.Srcs {
		if isSnip(s.Name) {
			continue
		}
		if ok, _ := filepath.Match(pat, filepath.Clean(s.Name)); ok {
			out = append(out, s.Name)
		}
	}
	sort.Strings(out)
	return out
}

// count walks the expansion tree. maxRepeat = how often one source may occur
// on a chain before the walk stops there (0: acyclic graphs, never reached).
func (f *fixture) count(name string, chain map[string]int, maxRepeat int, leaves map[string]int, steps *int, cyc *bool, cap int) {
	if *steps > cap {
		return
	}
	s := f.src(name)
	if s == nil {
		return
	}
	chain[name]++
	defer func() { chain[name]-- }()
	for _, it := range s.Items {
		if it == "L" {
			if leaves != nil {
				leaves[leafName(name)]++
			}
			continue
		}
		*steps++
		for _, m := range f.resolve(name, it[1:]) {
			if chain[m] > 0 {
				*cyc = true
				if chain[m] > maxRepeat {
					continue
				}
			}
			f.count(m, chain, maxRepeat, leaves, steps, cyc, cap)
		}
	}
}

func (f *fixture) build() {
	f.Files = map[string]string{}
	leaf := func(src string) string {
		if f.Ctx == "top" {
			return fmt.Sprintf("h_%s {\n %s v\n}\n", leafName(src), leafName(src))
		}
		return leafName(src) + " v w\n"
	}
	body := func(s fxSrc) string {
		var sb strings.Builder
		for _, it := range s.Items {
			if it == "L" {
				sb.WriteString(leaf(s.Name))
			} else {
				sb.WriteString("import " + it[1:] + "\n")
			}
		}
		return sb.String()
	}
	var main strings.Builder
	for _, s := range f.Srcs {
		if isSnip(s.Name) {
			main.WriteString(s.Name + " {\n" + body(s) + "}\n")
		}
	}
	for _, s := range f.Srcs {
		switch {
		case isSnip(s.Name):
		case s.Name == "Casketfile":
			switch f.Ctx {
			case "top":
				main.WriteString(body(s))
			case "block":
				main.WriteString("host0 {\n" + body(s) + "}\n")
			case "sub":
				main.WriteString("host0 {\n wrap a {\n" + body(s) + " }\n}\n")
			}
		default:
			b := body(s)
			if b == "" {
				b = "# empty\n"
			}
			f.Files[s.Name] = b
		}
	}
	f.Files["Casketfile"] = main.String()
	// model
	steps, cyc := 0, false
	leaves := map[string]int{}
	f.count("Casketfile", map[string]int{}, 0, leaves, &steps, &cyc, 1<<20)
	if cyc != f.Cyclic {
		panic(fmt.Sprintf("fixture %s: cyclic=%v but model says %v", f.Name, f.Cyclic, cyc))
	}
	if !cyc {
		f.Steps, f.Leaves, f.Bound = steps, leaves, steps
		return
	}
	// cyclic: a parser that refuses a source already on the chain executes at
	// most the statements of the tree in which every source may repeat once
	// per chain; allow twice that and some slack.
	steps = 0
	f.count("Casketfile", map[string]int{}, 1, nil, &steps, &cyc, 1<<20)
	f.Bound = 2*steps + 16
}

func fx(name string, cyclic bool, kind string, srcs ...fxSrc) []*fixture {
	var out []*fixture
	for _, ctx := range []string{"top", "block", "sub"} {
		f := &fixture{Name: name + "/" + ctx, Ctx: ctx, Cyclic: cyclic, CycleKind: kind}
		f.Srcs = append(f.Srcs, srcs...)
		f.build()
		out = append(out, f)
	}
	return out
}

func S(name string, items ...string) fxSrc { return fxSrc{Name: name, Items: items} }

func allFixtures(thorough bool) []*fixture {
	var out []*fixture
	add := func(fs []*fixture) { out = append(out, fs...) }
	// ---- acyclic
	for d := 1; d <= 5; d++ { // file chains
		srcs := []fxSrc{S("Casketfile", "L", "@c1.conf", "L")}
		for i := 1; i <= d; i++ {
			if i < d {
				srcs = append(srcs, S(fmt.Sprintf("c%d.conf", i), "L", fmt.Sprintf("@c%d.conf", i+1)))
			} else {
				srcs = append(srcs, S(fmt.Sprintf("c%d.conf", i), "L"))
			}
		}
		add(fx(fmt.Sprintf("acyclic/file-chain-%d", d), false, "", srcs...))
	}
	for d := 1; d <= 4; d++ { // snippet chains, defined inner first
		var srcs []fxSrc
		for i := d; i >= 1; i-- {
			if i < d {
				srcs = append(srcs, S(fmt.Sprintf("(s%d)", i), "L", fmt.Sprintf("@s%d", i+1), "L"))
			} else {
				srcs = append(srcs, S(fmt.Sprintf("(s%d)", i), "L"))
			}
		}
		srcs = append(srcs, S("Casketfile", "@s1", "L"))
		add(fx(fmt.Sprintf("acyclic/snippet-chain-%d", d), false, "", srcs...))
	}
	add(fx("acyclic/file-diamond", false, "", S("Casketfile", "@l.conf", "@r.conf"), S("l.conf", "L", "@sub/d.conf"), S("r.conf", "@sub/d.conf", "L"), S("sub/d.conf", "L")))
	add(fx("acyclic/snippet-diamond", false, "", S("(d)", "L"), S("(l)", "L", "@d"), S("(r)", "@d", "L"), S("Casketfile", "@l", "L", "@r")))
	for k := 1; k <= 4; k++ {
		srcs := []fxSrc{S("Casketfile", "L", "@sites/*.conf")}
		for i := 0; i < k; i++ {
			srcs = append(srcs, S(fmt.Sprintf("sites/v%d.conf", i), "L"))
		}
		add(fx(fmt.Sprintf("acyclic/glob-%d", k), false, "", srcs...))
	}
	add(fx("acyclic/glob-none", false, "", S("Casketfile", "L", "@nothing/*.conf", "L")))
	add(fx("acyclic/glob-nested", false, "", S("Casketfile", "@a/*.conf"), S("a/1.conf", "L", "@../b/*.conf"), S("a/2.conf", "@../b/x?.conf", "L"), S("b/x1.conf", "L"), S("b/x2.conf", "L", "@../c.conf"), S("c.conf", "L")))
	add(fx("acyclic/file-tree-2x3", false, "",
		S("Casketfile", "@t1a.conf", "@t1b.conf"),
		S("t1a.conf", "@t2a.conf", "L", "@t2b.conf"), S("t1b.conf", "@t2a.conf", "@t2b.conf"),
		S("t2a.conf", "@t3.conf", "@t3.conf"), S("t2b.conf", "L", "@t3.conf", "@t3.conf"), S("t3.conf", "L")))
	add(fx("acyclic/snippet-tree-3x2", false, "", S("(z)", "L"), S("(y)", "@z", "@z", "L", "@z"), S("Casketfile", "@y", "@y", "@y")))
	add(fx("acyclic/mixed-file-snippet-file", false, "", S("(s)", "L", "@inc/leaf.conf"), S("inc/leaf.conf", "L"), S("mid.conf", "@s", "L"), S("Casketfile", "@mid.conf", "@s")))
	add(fx("acyclic/empty-file", false, "", S("Casketfile", "L", "@e.conf", "L"), S("e.conf")))
	add(fx("acyclic/empty-snippet", false, "", S("(e)"), S("Casketfile", "L", "@e", "@e", "L")))
	{ // doubling chain: 2^6 leaves
		var srcs []fxSrc
		srcs = append(srcs, S("(p0)", "L"))
		for i := 1; i <= 6; i++ {
			srcs = append(srcs, S(fmt.Sprintf("(p%d)", i), fmt.Sprintf("@p%d", i-1), fmt.Sprintf("@p%d", i-1)))
		}
		srcs = append(srcs, S("Casketfile", "@p6"))
		add(fx("acyclic/snippet-doubling-6", false, "", srcs...))
	}
	add(fx("acyclic/same-file-twice", false, "", S("Casketfile", "@x.conf", "@x.conf", "L", "@x.conf"), S("x.conf", "L")))
	// the same relative import text written in files of different directories names different files
	add(fx("acyclic/same-relative-name-two-dirs", false, "", S("Casketfile", "@one/site.conf", "@two/site.conf"),
		S("one/site.conf", "L", "@common.conf"), S("two/site.conf", "@common.conf", "L"), S("one/common.conf", "L"), S("two/common.conf", "L")))
	add(fx("acyclic/same-relative-glob-two-dirs", false, "", S("Casketfile", "L", "@one/site.conf", "@two/site.conf", "@three/site.conf"),
		S("one/site.conf", "@inc/*.conf"), S("two/site.conf", "@inc/*.conf", "L"), S("three/site.conf", "@inc/*.conf"),
		S("one/inc/a.conf", "L"), S("two/inc/a.conf", "L"), S("two/inc/b.conf", "L")))
	// ---- cyclic
	add(fx("cyclic/main-self", true, "file", S("Casketfile", "L", "@Casketfile")))
	add(fx("cyclic/main-self-first", true, "file", S("Casketfile", "@Casketfile", "L")))
	add(fx("cyclic/file-self", true, "file", S("Casketfile", "@a.conf"), S("a.conf", "L", "@a.conf")))
	add(fx("cyclic/file-self-first", true, "file", S("Casketfile", "L", "@a.conf"), S("a.conf", "@a.conf", "L")))
	add(fx("cyclic/file-2", true, "file", S("Casketfile", "@a.conf"), S("a.conf", "L", "@b.conf"), S("b.conf", "L", "@a.conf")))
	add(fx("cyclic/file-3", true, "file", S("Casketfile", "L", "@a.conf"), S("a.conf", "L", "@d/b.conf"), S("d/b.conf", "L", "@c.conf"), S("d/c.conf", "@../a.conf", "L")))
	add(fx("cyclic/through-main", true, "file", S("Casketfile", "L", "@a.conf"), S("a.conf", "L", "@Casketfile")))
	add(fx("cyclic/snippet-self", true, "snippet", S("(s)", "L", "@s"), S("Casketfile", "@s")))
	add(fx("cyclic/snippet-self-first", true, "snippet", S("(s)", "@s", "L"), S("Casketfile", "L", "@s")))
	add(fx("cyclic/snippet-mutual", true, "snippet", S("(s1)", "L", "@s2"), S("(s2)", "L", "@s1"), S("Casketfile", "@s1")))
	add(fx("cyclic/snippet-3", true, "snippet", S("(s1)", "L", "@s2", "L"), S("(s2)", "L", "@s3"), S("(s3)", "L", "@s1"), S("Casketfile", "L", "@s2")))
	add(fx("cyclic/glob-self", true, "file", S("Casketfile", "@d/x.conf"), S("d/x.conf", "L", "@*.conf"), S("d/y.conf", "L")))
	add(fx("cyclic/glob-parent", true, "file", S("Casketfile", "L", "@d/*.conf"), S("d/x.conf", "L"), S("d/y.conf", "L", "@../Casketfile")))
	add(fx("cyclic/glob-2", true, "file", S("Casketfile", "@a/*.conf"), S("a/1.conf", "L", "@../b/*.conf"), S("b/1.conf", "L"), S("b/2.conf", "L", "@../a/?.conf")))
	add(fx("cyclic/snippet-file", true, "file", S("(s)", "L", "@a.conf"), S("a.conf", "L", "@s"), S("Casketfile", "@s")))
	add(fx("cyclic/file-snippet", true, "snippet", S("(s)", "L", "@a.conf"), S("a.conf", "L", "@s"), S("Casketfile", "@a.conf")))
	add(fx("cyclic/diamond-into-cycle", true, "file", S("Casketfile", "@l.conf", "@r.conf"), S("l.conf", "L", "@m.conf"), S("r.conf", "L", "@m.conf"), S("m.conf", "L", "@r.conf")))
	_ = thorough
	return out
}
