package c10

// Generator of Casketfile ASTs, their renderings (layout + placement into
// snippets / imported files / globs) and the reference result the parser has
// to deliver for them. Everything here is a pure function of the Rng handed
// in, so that parent and child processes can regenerate any case from
// (seed, index).

import (
	"fmt"
	"os"
	"path/filepath"
	"sort"
	"strings"
	"unicode"

	"verifharness/lib"
)

// environment the child processes run with (placeholders refer to these)
var envVals = map[string]string{
	"VERIF_C10_A": "alpha",
	"VERIF_C10_B": "two words",
	"VERIF_C10_C": "c:8080/x",
	"VERIF_C10_E": "",
	// a value that contains its own placeholder: it is a value like any other
	// and is inserted as it is
	"VERIF_C10_S": "self-{$VERIF_C10_S}-ref",
	// a value with a line break in it
	"VERIF_C10_N": "nl1\nnl2",
	// VERIF_C10_U is never set
}

// Two variables change from one parse to the next of the same process (the
// child sets them before each case): VERIF_C10_ROT takes one of five values,
// VERIF_C10_TOG is set for even case numbers and unset for odd ones. What a
// placeholder expands to is the variable's value at the time of THAT parse.
var curCase int

func rotVal(idx int) string { return fmt.Sprintf("rot%d", idx%5) }

func togVal(idx int) (string, bool) {
	if idx%2 == 0 {
		return fmt.Sprintf("tog%d", idx%3), true
	}
	return "", false
}

// SetCaseEnv puts the per-case variables into the process environment.
func SetCaseEnv(idx int) {
	os.Setenv("VERIF_C10_ROT", rotVal(idx))
	if v, ok := togVal(idx); ok {
		os.Setenv("VERIF_C10_TOG", v)
	} else {
		os.Unsetenv("VERIF_C10_TOG")
	}
}

func envList() []string {
	var out []string
	for k, v := range envVals {
		out = append(out, k+"="+v)
	}
	sort.Strings(out)
	return out
}

// tok is one token: how it is written and what the parser must deliver.
type tok struct {
	Src  string
	Want string
}

// node is one logical line: a server block header (depth 0: Toks are the
// keys) or a directive line (depth >= 1: name + args), optionally with a
// brace body. A node with Imp != nil is a physical `import` line.
type node struct {
	Toks []tok
	Open bool
	Kids []*node
	Imp  *target
}

// target is where an import line points to.
type target struct {
	Kind  string // snippet | file | glob
	Name  string // snippet name
	Path  string // file: path relative to the case root; glob: pattern relative to the case root
	Abs   bool   // write the import argument as an absolute path
	Body  []*node
	Parts []filePart // glob
	Depth int        // logical depth of the nodes in Body
}

type filePart struct {
	Path string
	Body []*node
}

// wline is what a dispenser walk sees for one line.
type wline struct {
	Name string   `json:"n"`
	Args []string `json:"a"`
	Sub  []wline  `json:"s,omitempty"`
}

type wblock struct {
	Keys []string           `json:"keys"`
	Dirs map[string][]wline `json:"dirs"`
}

// rendered case
type rcase struct {
	Files    map[string]string // path relative to case root -> content; main file is "Casketfile"
	Want     []wblock
	Imports  int // exact number of import statements the parser has to execute
	Features []string
	SnipUses int
	FileUses int
	Reuse    string // "", "snippet", "file", "glob"
	Nested   bool   // a snippet body contains an import of another snippet
}

type gen struct {
	r       *lib.Rng // layout and placement decisions
	ra      *lib.Rng // AST decisions (shared by the 4 renderings of one AST)
	root    string
	ly      layout
	files   map[string]string
	snips   []*target // definition order
	nfile   int
	nsnip   int
	imports int
	feats   map[string]bool
	rc      *rcase
}

type layout struct {
	crlf      bool
	indent    string
	comments  int // 0 none, 1 some, 2 many
	blanks    bool
	braceNext bool // server block brace on its own line
	wideSep   bool
	quoteMore bool
	bom       bool
	noFinalNL bool
	oddSpace  bool
}

var dirNames = []string{"dir0", "dir1", "dir2", "header", "proxy", "log", "gzip", "rewrite"}
var words = []string{"a", "b", "x", "y", "/", "/api", "localhost:8080", "on", "off", "10s", "*.png", "k=v", "X-Hdr", "{uri}", "{>Accept}", "http://h:81/p", "-", "!", "import", "a\"b", "q'r", "Ünï→", "c:\\dir\\f.exe", "1", "/path/{file}.{ext}", "[::1]:80"}
var keyWords = []string{"example.com", "localhost", ":8080", "http://a.test", "https://b.test:8443/p", "*.c.test", "127.0.0.1:2015", "host1:80", "d.test/path", "[::1]:9"}

// bareOK reports whether text can be written without quotes.
func bareOK(s string) bool {
	if s == "" || s == "{" || s == "}" {
		return false
	}
	for i, r := range s {
		if unicode.IsSpace(r) || r == '#' {
			return false
		}
		if i == 0 && r == '"' {
			return false
		}
	}
	return true
}

// quoteOK reports whether text can be written as a quoted token: the lexer
// only understands \" inside quotes, a backslash in front of a quote or at
// the very end cannot be expressed.
func quoteOK(s string) bool {
	if strings.HasSuffix(s, "\\") || strings.Contains(s, "\\\"") {
		return false
	}
	return true
}

func quote(s string) string {
	return `"` + strings.ReplaceAll(s, `"`, `\"`) + `"`
}

// mkTok builds a token whose source contains placeholders; want is src with
// the placeholders substituted.
func substEnv(s string) string {
	// one pass from left to right; inserted values are not looked at again
	var out strings.Builder
	for i := 0; i < len(s); {
		matched := false
		for _, form := range [][2]string{{"{$", "}"}, {"{%", "%}"}} {
			if strings.HasPrefix(s[i:], form[0]+"VERIF_C10_") {
				if j := strings.Index(s[i:], form[1]); j > 0 {
					name := s[i+len(form[0]) : i+j]
					v, ok := envVals[name]
					switch name {
					case "VERIF_C10_ROT":
						v, ok = rotVal(curCase), true
					case "VERIF_C10_TOG":
						v, _ = togVal(curCase)
						ok = true
					}
					if ok || name == "VERIF_C10_U" {
						out.WriteString(v)
						i += j + len(form[1])
						matched = true
						break
					}
				}
			}
		}
		if !matched {
			out.WriteByte(s[i])
			i++
		}
	}
	return out.String()
}

func (g *gen) write(content string) tok {
	// content is the literal token content (with placeholders unexpanded)
	want := substEnv(content)
	src := ""
	switch {
	case bareOK(content) && !(g.ly.quoteMore && quoteOK(content) && g.r.Chance(1, 3)):
		src = content
	case quoteOK(content):
		src = quote(content)
	default:
		// not expressible: fall back to a plain word
		return tok{Src: "w", Want: "w"}
	}
	return tok{Src: src, Want: want}
}

func (g *gen) argTok() tok {
	r := g.ra
	switch r.Intn(20) {
	case 0:
		return tok{Src: `""`, Want: ""}
	case 1:
		return g.write("with space " + r.Pick(words))
	case 2:
		g.feats["multiline-token"] = true
		if r.Intn(4) == 0 {
			// carriage returns inside quotes (a value wrapped in a file saved with
			// CRLF line ends, or a lone CR) belong to the token like any other byte
			g.feats["carriage-return-in-quotes"] = true
			return g.write("crlf1\r\nline2 " + r.Pick(words) + " lone\rcr")
		}
		if r.Intn(3) == 0 {
			// a backslash directly in front of a line break inside quotes (and
			// backslashes elsewhere): kept verbatim, and the line still counts
			g.feats["backslash-newline-in-quotes"] = true
			return g.write("cont\\\nnext " + r.Pick(words) + " c:\\x\\\n\\y")
		}
		return g.write("line1\nline2 " + r.Pick(words) + "\n  line3")
	case 3:
		return g.write(`say "hi" ` + r.Pick(words))
	case 4:
		return g.write("has # hash")
	case 5:
		return g.write("{ brace } { " + r.Pick(words))
	case 6:
		g.feats["env"] = true
		return g.write(r.Pick([]string{"{$VERIF_C10_A}", "{%VERIF_C10_A%}", "{$VERIF_C10_B}", "{$VERIF_C10_C}", "{$VERIF_C10_E}", "{$VERIF_C10_U}", "{$VERIF_C10_S}", "{$VERIF_C10_N}"}))
	case 7:
		g.feats["env"] = true
		if r.Intn(2) == 0 {
			g.feats["env-changing-between-parses"] = true
			return g.write(r.Pick([]string{"{$VERIF_C10_ROT}", "{%VERIF_C10_ROT%}", "{$VERIF_C10_TOG}", "v={$VERIF_C10_ROT}/{$VERIF_C10_TOG}."}))
		}
		return g.write("pre-" + r.Pick([]string{"{$VERIF_C10_A}", "{%VERIF_C10_C%}", "{$VERIF_C10_U}"}) + "/post")
	case 8:
		g.feats["env"] = true
		return g.write("q {$VERIF_C10_B} and {%VERIF_C10_A%}\nnext {$VERIF_C10_A}")
	case 9:
		return g.write("back\\slash " + `\n and "q"` + ` end`)
	case 10:
		return g.write("}{")
	case 11:
		return g.write("tab\there")
	default:
		return g.write(r.Pick(words))
	}
}

func (g *gen) nameTok(pool []string) tok {
	return g.write(g.ra.Pick(pool))
}

func (g *gen) keyTok() tok {
	r := g.ra
	switch r.Intn(10) {
	case 0:
		g.feats["env"] = true
		return g.write("{$VERIF_C10_A}.test")
	case 1:
		return g.write("key with space")
	case 2:
		g.feats["env"] = true
		return g.write("h.test:{%VERIF_C10_A%}")
	default:
		return g.write(r.Pick(keyWords))
	}
}

var subNames = []string{"opt", "policy", "header_upstream", "except", "to", "dir0", "match", "x"}

func (g *gen) genLine(depth int) *node {
	r := g.ra
	n := &node{}
	if depth == 1 {
		n.Toks = append(n.Toks, g.nameTok(dirNames))
	} else {
		n.Toks = append(n.Toks, g.nameTok(subNames))
	}
	na := r.Intn(5)
	for i := 0; i < na; i++ {
		n.Toks = append(n.Toks, g.argTok())
	}
	if depth < 3 && r.Chance(1, 3) {
		n.Open = true
		nk := r.Intn(5)
		for i := 0; i < nk; i++ {
			n.Kids = append(n.Kids, g.genLine(depth+1))
		}
	}
	return n
}

func (g *gen) genBlock() *node {
	r := g.ra
	b := &node{Open: true}
	nk := 1 + r.Intn(3)
	for i := 0; i < nk; i++ {
		b.Toks = append(b.Toks, g.keyTok())
	}
	nd := 1 + r.Intn(6)
	if r.Chance(1, 12) {
		nd = 0
	}
	for i := 0; i < nd; i++ {
		b.Kids = append(b.Kids, g.genLine(1))
	}
	return b
}

func cloneNodes(ns []*node) []*node {
	out := make([]*node, len(ns))
	for i, n := range ns {
		c := *n
		c.Toks = append([]tok(nil), n.Toks...)
		c.Kids = cloneNodes(n.Kids)
		out[i] = &c
	}
	return out
}

// expectation from the logical tree
func wantOf(blocks []*node) []wblock {
	var out []wblock
	for _, b := range blocks {
		wb := wblock{Dirs: map[string][]wline{}}
		for _, k := range b.Toks {
			wb.Keys = append(wb.Keys, k.Want)
		}
		for _, d := range b.Kids {
			l := wlineOf(d)
			wb.Dirs[l.Name] = append(wb.Dirs[l.Name], l)
		}
		out = append(out, wb)
	}
	return out
}

func wlineOf(n *node) wline {
	l := wline{Name: n.Toks[0].Want, Args: []string{}}
	for _, t := range n.Toks[1:] {
		l.Args = append(l.Args, t.Want)
	}
	for _, k := range n.Kids {
		l.Sub = append(l.Sub, wlineOf(k))
	}
	return l
}

// ---------------------------------------------------------------- placement

// place rewrites a sibling list: runs of whole lines are moved into
// snippets / files / globs and replaced by import lines. dir is the
// directory (relative to the case root) of the file this list is physically
// written in; inSnippet tells whether the list is the body of a snippet.
func (g *gen) place(ns []*node, depth int, dir string, budget *int, inSnippet bool) []*node {
	r := g.r
	// first recurse into bodies that stay here
	for _, n := range ns {
		if n.Open && len(n.Kids) > 0 && *budget > 0 && r.Chance(1, 2) {
			n.Kids = g.place(n.Kids, depth+1, dir, budget, inSnippet)
		}
	}
	if *budget <= 0 || !r.Chance(2, 3) {
		return ns
	}
	*budget--
	i := r.Intn(len(ns) + 1)
	j := i
	if i < len(ns) {
		j = i + 1 + r.Intn(len(ns)-i)
	}
	if i == j && !r.Chance(1, 6) {
		return ns
	}
	run := ns[i:j]
	// never move physical import lines that belong to a reuse pair apart: fine either way
	kinds := []string{"snippet", "snippet", "file", "file", "glob"}
	kind := r.Pick(kinds)
	if kind == "glob" && len(run) < 2 {
		kind = "file"
	}
	t := &target{Kind: kind, Depth: depth}
	var imp []*node
	switch kind {
	case "snippet":
		g.nsnip++
		t.Name = fmt.Sprintf("s%d", g.nsnip)
		if r.Chance(1, 5) {
			t.Name = fmt.Sprintf("snip-%d.x", g.nsnip)
		}
		t.Body = g.place(append([]*node(nil), run...), depth, "", budget, true)
		g.snips = append(g.snips, t)
		g.rc.SnipUses++
	case "file":
		g.nfile++
		id := g.nfile
		sub := r.Pick([]string{"", "inc", "inc/deep", "other"})
		t.Path = filepath.Join(sub, fmt.Sprintf("f%d.conf", id))
		t.Abs = r.Chance(1, 6)
		t.Body = g.place(append([]*node(nil), run...), depth, sub, budget, false)
		g.rc.FileUses++
	case "glob":
		g.nfile++
		id := g.nfile
		sub := r.Pick([]string{"", "inc", "sites"})
		np := 2 + r.Intn(2)
		if np > len(run) {
			np = len(run)
		}
		// split run into np consecutive parts
		cuts := []int{0}
		for k := 1; k < np; k++ {
			cuts = append(cuts, cuts[k-1]+1+r.Intn(len(run)-cuts[k-1]-(np-k)))
		}
		cuts = append(cuts, len(run))
		for k := 0; k < np; k++ {
			p := filePart{Path: filepath.Join(sub, fmt.Sprintf("g%d_%d.conf", id, k))}
			p.Body = g.place(append([]*node(nil), run[cuts[k]:cuts[k+1]]...), depth, sub, budget, false)
			t.Parts = append(t.Parts, p)
		}
		t.Path = filepath.Join(sub, fmt.Sprintf("g%d_*.conf", id))
		if r.Bool() {
			t.Path = filepath.Join(sub, fmt.Sprintf("g%d_?.conf", id))
		}
		g.rc.FileUses++
	}
	imp = []*node{{Imp: t}}
	out := append([]*node(nil), ns[:i]...)
	out = append(out, imp...)
	out = append(out, ns[j:]...)
	return out
}

// relTo gives the import argument for a path (relative to case root) written
// in a file living in dir.
func relTo(dir, path string, abs bool, root string) string {
	if abs {
		return filepath.Join(root, path)
	}
	rel, err := filepath.Rel(filepath.Join("/", dir), filepath.Join("/", path))
	if err != nil {
		return path
	}
	return rel
}

// ---------------------------------------------------------------- rendering

func (g *gen) nl() string {
	if g.ly.crlf {
		return "\r\n"
	}
	return "\n"
}

func (g *gen) sep() string {
	r := g.r
	if g.ly.oddSpace && r.Chance(1, 8) {
		return r.Pick([]string{"\u00a0", " \v ", "\f", "\u2003"})
	}
	if g.ly.wideSep {
		return r.Pick([]string{" ", "  ", "\t", " \t ", "    "})
	}
	return " "
}

var commentTexts = []string{"# comment", "#", "# \"unbalanced quote", "# { brace", "# } import x", "#import s1", "# trailing \\", "#\t{$VERIF_C10_A}"}

func (g *gen) trail() string {
	if g.ly.comments > 0 && g.r.Chance(g.ly.comments, 8) {
		return g.sep() + g.r.Pick(commentTexts)
	}
	if g.ly.wideSep && g.r.Chance(1, 6) {
		return g.r.Pick([]string{" ", "\t", "  "})
	}
	return ""
}

// longComment is a comment line longer than any read buffer a lexer is likely
// to use (4 KiB, 8 KiB): the text after a '#' is insignificant up to the line
// break however long it is, and it contains everything that would matter if it
// were not a comment.
func (g *gen) longComment() string {
	n := 4000 + g.r.Intn(9000)
	unit := "lorem { } \"ipsum import x dir0 a b "
	return "# " + strings.Repeat(unit, n/len(unit)+1)[:n]
}

func (g *gen) filler(sb *strings.Builder, ind string) {
	if g.ly.comments == 2 && g.r.Chance(1, 40) {
		g.feats["long-comment"] = true
		sb.WriteString(ind + g.longComment() + g.nl())
	}
	if g.ly.blanks && g.r.Chance(1, 5) {
		sb.WriteString(g.nl())
		if g.r.Chance(1, 3) {
			sb.WriteString("  \t" + g.nl())
		}
	}
	if g.ly.comments > 0 && g.r.Chance(g.ly.comments, 10) {
		sb.WriteString(ind + g.r.Pick(commentTexts) + g.nl())
	}
}

func (g *gen) indentOf(level int) string {
	if g.ly.wideSep && g.r.Chance(1, 5) {
		return strings.Repeat(g.r.Pick([]string{" ", "\t", "   "}), g.r.Intn(4))
	}
	return strings.Repeat(g.ly.indent, level)
}

// renderList writes sibling nodes. depth 0: server blocks. dir: directory of
// the file being written.
// lastBraceless: the last server block of the main file may omit its braces.
func (g *gen) renderList(sb *strings.Builder, ns []*node, depth, level int, dir string, braceless bool) {
	for idx, n := range ns {
		ind := g.indentOf(level)
		g.filler(sb, ind)
		if n.Imp != nil {
			g.renderImport(sb, n.Imp, ind, dir)
			continue
		}
		if depth == 0 {
			g.renderBlock(sb, n, level, dir, braceless && idx == len(ns)-1)
			continue
		}
		sb.WriteString(ind)
		for i, t := range n.Toks {
			if i > 0 {
				sb.WriteString(g.sep())
			}
			sb.WriteString(t.Src)
		}
		if n.Open {
			sb.WriteString(g.sep() + "{" + g.trail() + g.nl())
			g.renderList(sb, n.Kids, depth+1, level+1, dir, false)
			g.filler(sb, ind)
			sb.WriteString(g.indentOf(level) + "}" + g.trail() + g.nl())
		} else {
			sb.WriteString(g.trail() + g.nl())
		}
	}
}

func (g *gen) renderBlock(sb *strings.Builder, n *node, level int, dir string, braceless bool) {
	ind := g.indentOf(level)
	sb.WriteString(ind)
	for i, t := range n.Toks {
		last := i == len(n.Toks)-1
		sb.WriteString(t.Src)
		if last {
			break
		}
		// a comma may only follow a bare key that the lexer keeps in one token
		canComma := !strings.HasPrefix(t.Src, `"`) && t.Want != ""
		switch {
		case canComma && g.r.Chance(1, 2):
			sb.WriteString(",")
			if g.r.Chance(1, 3) {
				sb.WriteString(g.trail() + g.nl() + ind)
			} else {
				sb.WriteString(g.sep())
			}
		default:
			sb.WriteString(g.sep())
		}
	}
	if braceless {
		sb.WriteString(g.trail() + g.nl())
		g.renderList(sb, n.Kids, 1, level, dir, false)
		return
	}
	if g.ly.braceNext && g.r.Chance(1, 2) {
		sb.WriteString(g.trail() + g.nl() + ind + "{" + g.trail() + g.nl())
	} else {
		sb.WriteString(g.sep() + "{" + g.trail() + g.nl())
	}
	g.renderList(sb, n.Kids, 1, level+1, dir, false)
	g.filler(sb, ind)
	sb.WriteString(g.indentOf(level) + "}" + g.trail() + g.nl())
}

func (g *gen) renderImport(sb *strings.Builder, t *target, ind, dir string) {
	arg := ""
	switch t.Kind {
	case "snippet":
		arg = t.Name
	default:
		arg = relTo(dir, t.Path, t.Abs, g.rootDir())
	}
	if g.ly.quoteMore && g.r.Chance(1, 3) {
		arg = quote(arg)
	}
	sb.WriteString(ind + "import" + g.sep() + arg + g.trail() + g.nl())
	switch t.Kind {
	case "file":
		g.emitFile(t.Path, t.Body, t.Depth)
	case "glob":
		for _, p := range t.Parts {
			g.emitFile(p.Path, p.Body, t.Depth)
		}
	}
}

func (g *gen) rootDir() string { return g.root }

// emitFile renders one imported file (once, however often it is imported).
func (g *gen) emitFile(path string, body []*node, depth int) {
	if _, done := g.files[path]; done {
		return
	}
	g.files[path] = "" // reserve
	var sb strings.Builder
	if g.ly.bom && g.r.Chance(1, 3) {
		sb.WriteString("\uFEFF")
	}
	if len(body) == 0 {
		sb.WriteString("# nothing here" + g.nl())
	}
	g.renderList(&sb, body, depth, 0, filepath.Dir(path), false)
	s := sb.String()
	if g.ly.noFinalNL && g.r.Chance(1, 2) {
		s = strings.TrimRight(s, "\r\n")
		if strings.TrimSpace(s) == "" {
			s = "# x"
		}
	}
	g.files[path] = s
}

// genCase builds case number idx completely.
func genCase(seed uint64, idx int, root string) *rcase {
	return genCaseOpt(seed, idx, root, false)
}

// genCaseOpt: with inlineOnly the same AST (without the duplicated run of the
// reuse feature) is rendered into one file, for differential diagnosis.
func genCaseOpt(seed uint64, idx int, root string, inlineOnly bool) *rcase {
	curCase = idx
	r := lib.NewRng(seed*0x9E3779B97F4A7C15 ^ uint64(idx)*0xD1B54A32D192ED03 ^ 0xC10C)
	ra := lib.NewRng(seed*0x9E3779B97F4A7C15 ^ uint64(idx/4)*0x94D049BB133111EB ^ 0xA57)
	g := &gen{r: r, ra: ra, root: root, files: map[string]string{}, feats: map[string]bool{}}
	rc := &rcase{}
	g.rc = rc
	g.ly = layout{
		crlf: r.Chance(1, 4), indent: r.Pick([]string{"\t", "  ", "    ", ""}), comments: r.Intn(3),
		blanks: r.Bool(), braceNext: r.Chance(1, 3), wideSep: r.Bool(), quoteMore: r.Chance(1, 3),
		bom: r.Chance(1, 5), noFinalNL: r.Chance(1, 4), oddSpace: r.Chance(1, 6),
	}
	nb := 1 + ra.Intn(3)
	var blocks []*node
	for i := 0; i < nb; i++ {
		blocks = append(blocks, g.genBlock())
		if i < nb-1 && ra.Chance(1, 6) {
			// a block whose only key comes out empty (an unset variable, or "")
			// and which has directives of its own: whatever the parser does with
			// such a block, the blocks after it are exactly those written
			kb := g.genBlock()
			kb.Toks = []tok{[]tok{{Src: "{$VERIF_C10_U}", Want: ""}, {Src: `""`, Want: ""}}[ra.Intn(2)]}
			blocks = append(blocks, kb)
			g.feats["keyless-block-before-another"] = true
		}
	}
	// reuse feature: the same run of lines appears twice (adjacent or with
	// other lines between) and both copies are replaced by an import of one
	// and the same snippet / file / glob.
	mode := idx % 4 // 0 inline only, 1..3 with placement
	if inlineOnly {
		mode = 0
	}
	var reuse *target
	if mode == 3 && r.Chance(1, 2) {
		reuse = g.makeReuse(blocks)
	}
	phys := blocks
	if mode != 0 {
		budget := 1 + r.Intn(4)
		if reuse != nil {
			budget = r.Intn(2)
		}
		// top level first (whole server blocks), then inside
		for _, b := range phys {
			if b.Imp == nil && len(b.Kids) > 0 && budget > 0 {
				b.Kids = g.place(b.Kids, 1, "", &budget, false)
			}
		}
		if budget > 0 && r.Chance(1, 3) {
			phys = g.place(phys, 0, "", &budget, false)
		}
	}
	// main file
	var sb strings.Builder
	if g.ly.bom {
		sb.WriteString("\uFEFF")
	}
	// render the blocks first into a side buffer: this emits files and tells
	// which snippets exist and how often each is used
	var body strings.Builder
	braceless := r.Chance(1, 6) && len(phys) > 0 && phys[len(phys)-1].Imp == nil
	g.renderList(&body, phys, 0, 0, "", braceless)
	nimp := 0
	rc.Want = wantOf(expand(phys, &nimp))
	g.imports = nimp
	// snippet definitions (all in front of the first use; their mutual order
	// is arbitrary because snippets are looked up when they are expanded)
	defs := make([]string, len(g.snips))
	for k := 0; k < len(g.snips); k++ {
		t := g.snips[k]
		var d strings.Builder
		g.filler(&d, "")
		d.WriteString("(" + t.Name + ")" + g.sep() + "{" + g.trail() + g.nl())
		g.renderList(&d, t.Body, t.Depth, 1, "", false)
		if hasSnippetImport(t.Body) {
			rc.Nested = true
		}
		d.WriteString("}" + g.trail() + g.nl())
		defs[k] = d.String()
	}
	order := r.Perm(len(defs))
	if len(defs) > 1 && !sort.IntsAreSorted(order) {
		g.feats["snippet-def-order-shuffled"] = true
	}
	var defText strings.Builder
	for _, k := range order {
		defText.WriteString(defs[k])
	}
	if len(defs) > 0 && r.Chance(1, 4) {
		// definitions live in their own file imported at the top
		g.files["snippets.conf"] = defText.String()
		sb.WriteString("import snippets.conf" + g.nl())
		g.imports++
		g.feats["snippet-defs-in-file"] = true
	} else {
		sb.WriteString(defText.String())
	}
	sb.WriteString(body.String())
	main := sb.String()
	if g.ly.noFinalNL {
		main = strings.TrimRight(main, "\r\n")
	}
	g.files["Casketfile"] = main
	rc.Files = g.files
	rc.Imports = g.imports
	if reuse != nil {
		rc.Reuse = reuse.Kind
		g.feats["reuse-"+reuse.Kind] = true
	}
	if rc.SnipUses > 0 {
		g.feats["snippet"] = true
	}
	if rc.FileUses > 0 {
		g.feats["file-import"] = true
	}
	if rc.Nested {
		g.feats["snippet-in-snippet"] = true
	}
	if braceless {
		g.feats["braceless"] = true
	}
	if g.ly.crlf {
		g.feats["crlf"] = true
	}
	for f := range g.feats {
		rc.Features = append(rc.Features, f)
	}
	sort.Strings(rc.Features)
	return rc
}

// makeReuse picks a run of sibling lines, moves it into one target and
// imports that target twice (adjacent, or with other lines in between).
func (g *gen) makeReuse(blocks []*node) *target {
	r := g.r
	type cand struct {
		parent *node
		depth  int
	}
	var cands []cand
	var visit func(n *node, depth int)
	visit = func(n *node, depth int) {
		if n.Open && len(n.Kids) > 0 {
			cands = append(cands, cand{n, depth + 1})
		}
		for _, k := range n.Kids {
			visit(k, depth+1)
		}
	}
	for _, b := range blocks {
		visit(b, 0)
	}
	if len(cands) == 0 {
		return nil
	}
	c := cands[r.Intn(len(cands))]
	ks := c.parent.Kids
	i := r.Intn(len(ks))
	j := i + 1 + r.Intn(len(ks)-i)
	if j-i > 2 {
		j = i + 2
	}
	run := append([]*node(nil), ks[i:j]...)
	gap := 0
	if r.Chance(1, 3) {
		gap = r.Intn(len(ks) - j + 1)
	}
	kind := r.Pick([]string{"snippet", "snippet", "file", "glob"})
	if kind == "glob" && len(run) < 2 {
		kind = "file"
	}
	t := &target{Kind: kind, Depth: c.depth, Body: run}
	switch kind {
	case "snippet":
		g.nsnip++
		t.Name = fmt.Sprintf("r%d", g.nsnip)
		g.snips = append(g.snips, t)
		g.rc.SnipUses += 2
	case "file":
		g.nfile++
		t.Path = filepath.Join(r.Pick([]string{"", "inc"}), fmt.Sprintf("r%d.conf", g.nfile))
		g.rc.FileUses += 2
	case "glob":
		g.nfile++
		t.Body = nil
		t.Parts = []filePart{{Path: fmt.Sprintf("rg%d_0.conf", g.nfile), Body: run[:1]}, {Path: fmt.Sprintf("rg%d_1.conf", g.nfile), Body: run[1:]}}
		t.Path = fmt.Sprintf("rg%d_*.conf", g.nfile)
		g.rc.FileUses += 2
	}
	phys := append([]*node(nil), ks[:i]...)
	phys = append(phys, &node{Imp: t})
	phys = append(phys, ks[j:j+gap]...)
	phys = append(phys, &node{Imp: t})
	phys = append(phys, ks[j+gap:]...)
	c.parent.Kids = phys
	return t
}

// expand gives the logical tree of a physical one: import lines are replaced
// by what they stand for. nimp counts the import statements executed.
func expand(ns []*node, nimp *int) []*node {
	var out []*node
	for _, n := range ns {
		if n.Imp != nil {
			*nimp++
			switch n.Imp.Kind {
			case "glob":
				for _, p := range n.Imp.Parts {
					out = append(out, expand(p.Body, nimp)...)
				}
			default:
				out = append(out, expand(n.Imp.Body, nimp)...)
			}
			continue
		}
		c := *n
		c.Kids = expand(n.Kids, nimp)
		out = append(out, &c)
	}
	return out
}

func hasSnippetImport(ns []*node) bool {
	for _, n := range ns {
		if n.Imp != nil {
			if n.Imp.Kind == "snippet" {
				return true
			}
			continue
		}
		if hasSnippetImport(n.Kids) {
			return true
		}
	}
	return false
}
