package c06

import (
	"bufio"
	"crypto/tls"
	"crypto/x509"
	"errors"
	"fmt"
	"io"
	"net"
	"net/http"
	"strings"
	"time"
)

// hsResult is what the test client saw of one handshake.
type hsResult struct {
	OK      bool     `json:"ok"`
	Unsure  bool     `json:"unsure,omitempty"` // transport trouble (timeout, reset): no verdict
	Err     string   `json:"err,omitempty"`
	Version uint16   `json:"version,omitempty"`
	Cipher  uint16   `json:"cipher,omitempty"`
	ALPN    string   `json:"alpn,omitempty"`
	PeerCN  string   `json:"peer_cn,omitempty"`
	Names   []string `json:"peer_names,omitempty"`
	CertReq bool     `json:"cert_requested"`
	CAs     []string `json:"acceptable_cas,omitempty"`
	Sent    bool     `json:"client_cert_sent"`
}

type clientCerts struct {
	c1, c2 tls.Certificate
}

const ioTimeout = 60 * time.Second

func isTLSAlert(err error) bool {
	if err == nil {
		return false
	}
	s := err.Error()
	return strings.Contains(s, "remote error: tls:") || strings.Contains(s, "tls: ")
}

func isTransport(err error) bool {
	if err == nil {
		return false
	}
	var ne net.Error
	if errors.As(err, &ne) && ne.Timeout() {
		return true
	}
	s := err.Error()
	return strings.Contains(s, "connection reset") || strings.Contains(s, "broken pipe") || strings.Contains(s, "connection refused") || strings.Contains(s, "i/o timeout")
}

// dialTLS performs one handshake. protos is the ALPN offer. The returned
// connection is nil unless the handshake succeeded.
func dialTLS(addr, sni string, of offer, protos []string, cc *clientCerts) (*tls.Conn, hsResult) {
	var res hsResult
	raw, err := net.DialTimeout("tcp", addr, 30*time.Second)
	if err != nil {
		res.Unsure, res.Err = true, "dial: "+err.Error()
		return nil, res
	}
	if tc, ok := raw.(*net.TCPConn); ok {
		tc.SetLinger(0)
	}
	cfg := &tls.Config{
		ServerName:         sni,
		InsecureSkipVerify: true, // certificates are inspected, not trusted
		MinVersion:         of.VMin,
		MaxVersion:         of.VMax,
		CipherSuites:       clientCipherIDs(of.Ciphers),
		NextProtos:         protos,
		GetClientCertificate: func(cri *tls.CertificateRequestInfo) (*tls.Certificate, error) {
			res.CertReq = true
			for _, ca := range cri.AcceptableCAs {
				res.CAs = append(res.CAs, string(ca))
			}
			switch of.Cert {
			case "c1":
				res.Sent = true
				return &cc.c1, nil
			case "c2":
				res.Sent = true
				return &cc.c2, nil
			}
			return &tls.Certificate{}, nil
		},
	}
	conn := tls.Client(raw, cfg)
	conn.SetDeadline(time.Now().Add(ioTimeout))
	if err := conn.Handshake(); err != nil {
		raw.Close()
		res.Err = err.Error()
		if !isTLSAlert(err) || isTransport(err) {
			// EOF / reset / timeout in the middle of a handshake: the
			// server went away without an alert (a Go TLS server always
			// alerts when it refuses), so this is no verdict.
			res.Unsure = true
		}
		return nil, res
	}
	st := conn.ConnectionState()
	res.OK = true
	res.Version = st.Version
	res.Cipher = st.CipherSuite
	res.ALPN = st.NegotiatedProtocol
	if len(st.PeerCertificates) > 0 {
		leaf := st.PeerCertificates[0]
		res.PeerCN = leaf.Subject.CommonName
		res.Names = append(res.Names, leaf.DNSNames...)
		for _, ip := range leaf.IPAddresses {
			res.Names = append(res.Names, ip.String())
		}
	}
	return conn, res
}

// settle waits for the server's verdict on a handshake the client already
// considers complete (TLS 1.3: the client certificate is judged after the
// client has finished). On connection 1 the negotiated ALPN token has no
// handler, so net/http closes the connection: a clean close means accepted,
// an alert means refused.
func settle(conn *tls.Conn, res *hsResult) {
	conn.SetDeadline(time.Now().Add(ioTimeout))
	var b [1]byte
	_, err := conn.Read(b[:])
	conn.Close()
	switch {
	case err == nil || err == io.EOF:
	case isTransport(err):
		res.OK, res.Unsure, res.Err = false, true, "after handshake: "+err.Error()
	case isTLSAlert(err):
		res.OK, res.Err = false, "after handshake: "+err.Error()
	default:
		res.OK, res.Unsure, res.Err = false, true, "after handshake: "+err.Error()
	}
}

// httpResp is one response of the HTTP phase.
type httpResp struct {
	Status int
	Marker string
	Close  bool
	Err    error
}

// httpConn is a keep-alive HTTP/1.1 exchange over an established TLS conn.
type httpConn struct {
	c  *tls.Conn
	br *bufio.Reader
}

func newHTTPConn(c *tls.Conn) *httpConn { return &httpConn{c: c, br: bufio.NewReader(c)} }

func (h *httpConn) get(host, path string) httpResp {
	h.c.SetDeadline(time.Now().Add(ioTimeout))
	if _, err := fmt.Fprintf(h.c, "GET %s HTTP/1.1\r\nHost: %s\r\nUser-Agent: verif-c06\r\n\r\n", path, host); err != nil {
		// The server may already have refused the handshake (TLS 1.3 judges
		// the client certificate after the client is done) and closed: the
		// write then meets a reset, but the alert it sent first is still
		// readable and is the real answer.
		var b [1]byte
		if _, rerr := h.c.Read(b[:]); rerr != nil && isTLSAlert(rerr) && !isTransport(rerr) {
			return httpResp{Err: rerr}
		}
		return httpResp{Err: err}
	}
	resp, err := http.ReadResponse(h.br, nil)
	if err != nil {
		return httpResp{Err: err}
	}
	_, err = io.Copy(io.Discard, resp.Body)
	resp.Body.Close()
	return httpResp{Status: resp.StatusCode, Marker: resp.Header.Get(markerHeader), Close: resp.Close, Err: err}
}

func (h *httpConn) close() { h.c.Close() }

func subjectOf(c *x509.Certificate) string { return string(c.RawSubject) }
