// Package c06: TLS settings follow the SNI-matched site; no TLS/plaintext
// mixing.
//
// One real casket instance per generated site set (one listener shared by
// 2..6 HTTPS sites). Every site's certificate is minted by the harness, every
// host pattern carries a fingerprint (a unique first ALPN token), its own
// protocol range, cipher list and client-certificate policy. A probe is two
// TLS connections with the same SNI and the same client offer (version range,
// cipher suites, client certificate): the first offers only the fingerprint
// tokens, so the negotiated ALPN names the tls.Config that governed the
// handshake; the second offers http/1.1 and then sends requests with every
// Host of the alphabet. The oracle (ref.go) is a reference SNI matcher plus a
// model of what a handshake between two offers may negotiate.
package c06

import (
	"crypto/tls"
	"crypto/x509"
	"fmt"
	"net"
	"os"
	"path/filepath"
	"sort"
	"strconv"
	"strings"
	"sync"
	"time"

	"verifharness/lib"
)

func init() {
	lib.Register(&lib.Prop{ID: "C06", Level: "exploration", Run: run})
}

const (
	markerHeader = "X-Verif-Site"
	localIP      = "127.0.0.1"
)

var debug = os.Getenv("C06_DEBUG") != ""

// ---------------------------------------------------------------- site sets

type site struct {
	Host    string `json:"host"`            // canonical pattern, lower case; "" is the catch-all written ":port"
	Spell   string `json:"spell,omitempty"` // spelling in the Casketfile when it differs
	Path    string `json:"path,omitempty"`
	Proto   string `json:"protocols,omitempty"`
	Ciphers string `json:"ciphers,omitempty"`
	Clients string `json:"clients,omitempty"`
	Plain   string `json:"plain,omitempty"` // not a TLS site: "off" (tls off) | "http" (http:// scheme) | "bare" (no tls directive)
}

type siteSet struct {
	idx   int
	Kind  string
	Sites []site
	// Invalid: "" valid; "mixed" TLS+plaintext; "incompat" same SNI name, incompatible settings
	Invalid string
}

func (s *siteSet) hosts() []string {
	var out []string
	for _, x := range s.Sites {
		out = append(out, x.Host)
	}
	return out
}

// first returns the first site with that host (same-host sites of a valid
// set have identical TLS settings by construction).
func (s *siteSet) first(host string) int {
	for i, x := range s.Sites {
		if x.Host == host {
			return i
		}
	}
	return -1
}

// certKey: sites with the same host pattern share a certificate, and so do
// the catch-all spellings of one set (the certificate cache of an instance is
// keyed by subject names, not by site, so two certificates for the same
// names would make the choice between them arbitrary).
func certKey(host string) string {
	if isCatchAll(host) {
		return "catchall"
	}
	return host
}

// token is the fingerprint of a host pattern. Sites with the same SNI name
// must have identical ALPN lists to be compatible, so the fingerprint belongs
// to the name; the catch-all spellings are one name ("" in SNI terms).
func (s *siteSet) token(host string) string {
	if isCatchAll(host) {
		for i, x := range s.Sites {
			if isCatchAll(x.Host) {
				return fmt.Sprintf("verif-site-%d", i)
			}
		}
	}
	return fmt.Sprintf("verif-site-%d", s.first(host))
}

func (s *siteSet) tokens() []string {
	seen := map[string]bool{}
	var out []string
	for _, x := range s.Sites {
		if x.Plain != "" {
			continue
		}
		t := s.token(x.Host)
		if !seen[t] {
			seen[t] = true
			out = append(out, t)
		}
	}
	return out
}

func (s *siteSet) signature() string {
	var parts []string
	for _, x := range s.Sites {
		parts = append(parts, fmt.Sprintf("%s%s|%s|%s|%s|%s", x.Host, x.Path, x.Proto, x.Ciphers, x.Clients, x.Plain))
	}
	if s.Invalid == "" && s.Kind != "alias" {
		sort.Strings(parts) // declaration order is irrelevant unless catch-all spellings compete
	}
	return strings.Join(parts, ";")
}

var (
	hostAlphabet = []string{"a.test", "b.a.test", "*.a.test", "*.*.test", "*.test", "w.test", "*.w.test", "localhost", "127.0.0.1", "", "0.0.0.0"}
	protoChoices = []string{"", "", "tls1.2", "tls1.3", "tls1.2 tls1.3", "tls1.0 tls1.1", "tls1.0 tls1.3", "tls1.1 tls1.2", "tls1.0"}
	ciphChoices  = []string{"", "", "gcm128", "cbcgcm", "cbcgcm", "cbc"}
	cliChoices   = []string{"", "", "", "request", "require", "require", "ca1", "ca2", "vig1"}

	sniAlphabet = []string{"a.test", "[a.test]", "a.test.ext", "w.test.ext", "A.Test", "b.a.test", "c.a.test", "c.b.a.test", "x.test", "X.TEST", "w.test", "y.w.test", "z.y.w.test", "localhost", "stray.example", "test", ""}
	hostHeaders = []string{"a.test", "a.test.ext", "w.test.ext", "b.a.test", "c.a.test", "x.test", "w.test", "y.w.test", "localhost", "stray.example", "127.0.0.1", ""}

	versionOffers = [][2]uint16{
		{tls.VersionTLS10, tls.VersionTLS10}, {tls.VersionTLS10, tls.VersionTLS11}, {tls.VersionTLS11, tls.VersionTLS11},
		{tls.VersionTLS10, tls.VersionTLS12}, {tls.VersionTLS12, tls.VersionTLS12}, {tls.VersionTLS12, tls.VersionTLS13},
		{tls.VersionTLS13, tls.VersionTLS13}, {tls.VersionTLS10, tls.VersionTLS13}, {tls.VersionTLS11, tls.VersionTLS13},
		{tls.VersionTLS11, tls.VersionTLS12},
	}
	cipherOffers = []string{"all", "all", "cbc", "gcm", "chacha"}
	certOffers   = []string{"none", "c1", "c2"}
)

func spell(r *lib.Rng, h string) string {
	if h == "" || !strings.ContainsAny(h, "abcdefghijklmnopqrstuvwxyz") || r.Intn(5) != 0 {
		return ""
	}
	return strings.ToUpper(h[:1]) + h[1:len(h)-1] + strings.ToUpper(h[len(h)-1:])
}

func randomSettings(r *lib.Rng) (string, string, string) {
	return protoChoices[r.Intn(len(protoChoices))], ciphChoices[r.Intn(len(ciphChoices))], cliChoices[r.Intn(len(cliChoices))]
}

func genRandomSet(r *lib.Rng, idx int) *siteSet {
	n := 2 + r.Intn(4)
	perm := r.Perm(len(hostAlphabet))
	s := &siteSet{idx: idx, Kind: "random"}
	catchAlls := 0
	for _, pi := range perm {
		if len(s.Sites) >= n {
			break
		}
		h := hostAlphabet[pi]
		if isCatchAll(h) {
			if catchAlls > 0 && r.Intn(4) != 0 {
				continue
			}
			catchAlls++
		}
		p, c, cl := randomSettings(r)
		if isCatchAll(h) && catchAlls > 1 {
			// the catch-all spellings are one SNI name: only identical
			// settings make such a set valid
			for _, x := range s.Sites {
				if isCatchAll(x.Host) {
					p, c, cl = x.Proto, x.Ciphers, x.Clients
				}
			}
		}
		s.Sites = append(s.Sites, site{Host: h, Spell: spell(r, h), Proto: p, Ciphers: c, Clients: cl})
	}
	if catchAlls > 1 {
		s.Kind = "alias"
	}
	// sometimes a second site for one of the hosts under a path, with the
	// same TLS settings (the only way same-name sites are valid)
	if r.Intn(4) == 0 {
		base := s.Sites[r.Intn(len(s.Sites))]
		base.Path = "/x"
		base.Spell = spell(r, base.Host)
		s.Sites = append(s.Sites, base)
	}
	return s
}

// coreSets are seed-independent: the layouts the design names explicitly.
func coreSets() []*siteSet {
	mk := func(kind string, sites ...site) *siteSet { return &siteSet{Kind: kind, Sites: sites} }
	var out []*siteSet
	// the pre-confirmed layout of the design
	out = append(out, mk("core", site{Host: "a.test"}, site{Host: "*.w.test", Proto: "tls1.3", Clients: "require"}, site{Host: "", Proto: "tls1.2"}))
	// the wildcard ladder, every rung with other settings
	out = append(out, mk("core",
		site{Host: "b.a.test", Proto: "tls1.3"},
		site{Host: "*.a.test", Proto: "tls1.2", Ciphers: "gcm128", Clients: "request"},
		site{Host: "*.*.test", Proto: "tls1.0 tls1.1", Ciphers: "cbc", Clients: "ca1"},
		site{Host: "*.test", Proto: "tls1.0 tls1.3", Ciphers: "cbcgcm", Clients: "require"},
		site{Host: "", Proto: "tls1.1 tls1.2", Ciphers: "cbcgcm", Clients: "ca2"}))
	// default minimum: nothing configured but a cipher list that would allow old versions
	out = append(out, mk("core", site{Host: "a.test", Ciphers: "cbcgcm"}, site{Host: "*.test", Ciphers: "cbc", Proto: "tls1.0 tls1.3"}, site{Host: "0.0.0.0", Ciphers: "cbcgcm", Clients: "vig1"}))
	// client-auth site next to open sites, IP site and catch-all
	out = append(out, mk("core", site{Host: "a.test", Clients: "ca1"}, site{Host: "*.a.test"}, site{Host: "127.0.0.1", Clients: "require"}, site{Host: "localhost", Clients: "ca2"}, site{Host: ""}))
	out = append(out, mk("core", site{Host: "127.0.0.1"}, site{Host: "", Clients: "require"}, site{Host: "w.test", Clients: "request"}))
	// same name twice (paths), compatible
	out = append(out, mk("core", site{Host: "a.test", Clients: "require", Proto: "tls1.2"}, site{Host: "a.test", Spell: "A.test", Path: "/x", Clients: "require", Proto: "tls1.2"}, site{Host: "*.test"}))
	// a client-auth site whose name merely begins with another site's name
	out = append(out, mk("core", site{Host: "a.test"}, site{Host: "a.test.ext", Clients: "require"}, site{Host: "w.test", Clients: "ca1"}, site{Host: "w.test.ext"}))
	// a named site that only exists under a path prefix, next to a client-auth catch-all:
	// requests for that name outside the prefix belong to no site
	out = append(out, mk("core", site{Host: "a.test", Path: "/x"}, site{Host: "", Clients: "require"}, site{Host: "w.test"}))
	out = append(out, mk("core", site{Host: "*.a.test", Path: "/x", Proto: "tls1.2"}, site{Host: "0.0.0.0", Clients: "ca1"}))
	// two catch-all spellings with the same settings, both orders
	for _, cl := range []string{"require", "ca1"} {
		out = append(out, mk("alias", site{Host: "0.0.0.0", Clients: cl}, site{Host: "", Clients: cl}, site{Host: "a.test"}))
		out = append(out, mk("alias", site{Host: "", Clients: cl, Proto: "tls1.2"}, site{Host: "0.0.0.0", Clients: cl, Proto: "tls1.2"}, site{Host: "127.0.0.1"}))
	}
	return out
}

// coreInvalid are seed-independent invalid sets.
func coreInvalid() []*siteSet {
	mk := func(inv string, sites ...site) *siteSet {
		return &siteSet{Kind: "invalid-" + inv, Invalid: inv, Sites: sites}
	}
	var out []*siteSet
	for _, cl := range []string{"require", "ca1"} {
		// the catch-all spellings are one SNI name
		out = append(out, mk("incompat", site{Host: "0.0.0.0", Clients: cl}, site{Host: ""}))
		out = append(out, mk("incompat", site{Host: ""}, site{Host: "0.0.0.0", Clients: cl}))
		out = append(out, mk("incompat", site{Host: "", Clients: cl}, site{Host: "0.0.0.0"}, site{Host: "a.test"}))
		out = append(out, mk("incompat", site{Host: "0.0.0.0"}, site{Host: "", Clients: cl}, site{Host: "a.test"}))
		out = append(out, mk("incompat", site{Host: "0.0.0.0", Path: "/x", Clients: cl}, site{Host: "0.0.0.0"}))
		out = append(out, mk("incompat", site{Host: "a.test", Path: "/x", Clients: cl}, site{Host: "a.test"}))
		out = append(out, mk("incompat", site{Host: "", Path: "/x"}, site{Host: "", Clients: cl}))
	}
	out = append(out, mk("incompat", site{Host: "0.0.0.0", Proto: "tls1.3"}, site{Host: "", Proto: "tls1.2"}))
	out = append(out, mk("incompat", site{Host: "", Proto: "tls1.3"}, site{Host: "0.0.0.0", Proto: "tls1.2"}))
	out = append(out, mk("incompat", site{Host: "*.test", Path: "/x", Proto: "tls1.3"}, site{Host: "*.test", Proto: "tls1.2"}, site{Host: "a.test"}))
	out = append(out, mk("incompat", site{Host: "a.test", Ciphers: "cbc"}, site{Host: "a.test", Spell: "A.TEST", Path: "/x", Ciphers: "gcm128"}))
	for _, plain := range []string{"off", "http"} {
		out = append(out, mk("mixed", site{Host: "a.test"}, site{Host: "b.a.test", Plain: plain}))
		out = append(out, mk("mixed", site{Host: "b.a.test", Plain: plain}, site{Host: "a.test"}))
		out = append(out, mk("mixed", site{Host: "a.test"}, site{Host: "*.test", Plain: plain}, site{Host: "", Clients: "require"}))
	}
	out = append(out, mk("mixed", site{Host: "a.test"}, site{Host: "", Plain: "bare"}))
	out = append(out, mk("mixed", site{Host: "localhost", Plain: "bare"}, site{Host: "a.test"}, site{Host: "w.test"}))
	out = append(out, mk("mixed", site{Host: "a.test", Clients: "ca1"}, site{Host: "127.0.0.1", Plain: "bare"}))
	return out
}

// genInvalidSet builds a site set the statement says must be rejected.
func genInvalidSet(r *lib.Rng, idx int) *siteSet {
	s := &siteSet{idx: idx}
	if r.Intn(2) == 0 {
		// TLS and plaintext sites on one listener
		s.Kind, s.Invalid = "invalid-mixed", "mixed"
		n := 2 + r.Intn(3)
		perm := r.Perm(len(hostAlphabet))
		for _, pi := range perm[:n] {
			h := hostAlphabet[pi]
			p, c, cl := randomSettings(r)
			s.Sites = append(s.Sites, site{Host: h, Spell: spell(r, h), Proto: p, Ciphers: c, Clients: cl})
		}
		// at least one and not all become plaintext
		k := 1 + r.Intn(n-1)
		for _, i := range r.Perm(n)[:k] {
			x := &s.Sites[i]
			x.Proto, x.Ciphers, x.Clients = "", "", ""
			kinds := []string{"off", "http"}
			if x.Host == "localhost" || x.Host == "127.0.0.1" || isCatchAll(x.Host) || strings.Contains(x.Host, "*.*") {
				kinds = append(kinds, "bare") // names that never qualify for automatic HTTPS
			}
			x.Plain = kinds[r.Intn(len(kinds))]
		}
		return s
	}
	// the same SNI name twice (different paths) with settings that differ
	s.Kind, s.Invalid = "invalid-incompat", "incompat"
	named := []string{"a.test", "b.a.test", "*.a.test", "*.test", "localhost", "127.0.0.1", "", "0.0.0.0"}
	h := named[r.Intn(len(named))]
	p, c, cl := randomSettings(r)
	a := site{Host: h, Proto: p, Ciphers: c, Clients: cl}
	b := a
	b.Path = "/x"
	b.Spell = spell(r, h)
	switch r.Intn(3) {
	case 0:
		for b.Proto == a.Proto || protoEq(a.Proto, b.Proto) {
			b.Proto = protoChoices[r.Intn(len(protoChoices))]
		}
	case 1:
		for b.Ciphers == a.Ciphers {
			b.Ciphers = ciphChoices[r.Intn(len(ciphChoices))]
		}
	default:
		for b.Clients == a.Clients {
			b.Clients = cliChoices[r.Intn(len(cliChoices))]
		}
	}
	if isCatchAll(h) && r.Intn(2) == 0 {
		// the other catch-all spelling instead of a path
		b.Path, b.Spell = "", ""
		b.Host = "0.0.0.0"
		if h == "0.0.0.0" {
			b.Host = ""
		}
	}
	sites := []site{a, b}
	if r.Intn(2) == 0 {
		sites = []site{b, a}
	}
	if r.Intn(2) == 0 {
		// an identical twin in between must not hide the conflict
		t := sites[0]
		t.Path = "/y"
		sites = []site{sites[0], t, sites[1]}
	}
	if r.Intn(2) == 0 {
		other := "w.test"
		p, c, cl := randomSettings(r)
		sites = append(sites, site{Host: other, Proto: p, Ciphers: c, Clients: cl})
	}
	s.Sites = sites
	return s
}

func protoEq(a, b string) bool {
	a1, a2 := protoRange(a)
	b1, b2 := protoRange(b)
	return a1 == b1 && a2 == b2
}

// ---------------------------------------------------------------- runner

type runner struct {
	c       *lib.Ctx
	startMu sync.Mutex
	root    string
	caPath  map[string]string // "1","2" -> CA certificate file
	caSubj  map[string]string
	cc      *clientCerts

	unrepMu sync.Mutex
	unrep   []interface{}
}

type liveSet struct {
	set      *siteSet
	port     int
	text     string
	certName map[string]string // certKey -> CN of the minted certificate
}

// render mints the certificates of the set and writes its Casketfile.
func (r *runner) render(s *siteSet, port int) *liveSet {
	dir := filepath.Join(r.c.Dir, fmt.Sprintf("set-%d", s.idx))
	os.MkdirAll(dir, 0o755)
	ls := &liveSet{set: s, port: port, certName: map[string]string{}}
	type pair struct{ crt, key string }
	certs := map[string]pair{}
	hosts := s.hosts()
	var named []string
	for _, h := range hosts {
		if !isCatchAll(h) {
			named = append(named, h)
		}
	}
	for i, x := range s.Sites {
		if x.Plain != "" {
			continue
		}
		ck := certKey(x.Host)
		if _, ok := certs[ck]; ok {
			continue
		}
		var sans []string
		if ck == "catchall" {
			// exactly the names for which a catch-all is the matched site
			seen := map[string]bool{}
			for _, n := range sniAlphabet {
				n = strings.ToLower(n)
				if n == "" || seen[n] {
					continue
				}
				seen[n] = true
				if m, _ := refMatch(named, n, localIP); len(m) == 0 {
					sans = append(sans, n)
				}
			}
			if s.first(localIP) < 0 {
				sans = append(sans, localIP)
			}
		} else {
			sans = []string{x.Host}
		}
		name := fmt.Sprintf("s%d-c%d", s.idx, i)
		crt, key, _ := lib.MintCert(dir, name, sans)
		certs[ck] = pair{crt, key}
		ls.certName[ck] = name
	}
	var b strings.Builder
	for i, x := range s.Sites {
		h := x.Host
		if x.Spell != "" {
			h = x.Spell
		}
		addr := fmt.Sprintf("%s:%d%s", h, port, x.Path)
		if x.Plain == "http" {
			addr = "http://" + addr
		}
		fmt.Fprintf(&b, "%s {\n\troot %s\n\ttimeouts none\n\theader / %s %d.%d\n", addr, r.root, markerHeader, s.idx, i)
		switch x.Plain {
		case "off":
			b.WriteString("\ttls off\n")
		case "http", "bare":
		default:
			p := certs[certKey(x.Host)]
			fmt.Fprintf(&b, "\ttls %s %s {\n\t\tno_redirect\n", p.crt, p.key)
			twoLines := (s.idx+i)%3 == 1 && (x.Proto != "" || x.Ciphers != "" || x.Clients != "")
			if twoLines {
				// the same settings spread over two tls lines (certificate in
				// the first, policy in the second - as with an imported
				// snippet): a site's settings are those of all its lines
				fmt.Fprintf(&b, "\t\talpn %s http/1.1\n\t}\n\ttls {\n", s.token(x.Host))
			}
			if x.Proto != "" {
				fmt.Fprintf(&b, "\t\tprotocols %s\n", x.Proto)
			}
			if x.Ciphers != "" {
				fmt.Fprintf(&b, "\t\tciphers %s\n", strings.Join(siteCipherNames[x.Ciphers], " "))
			}
			switch x.Clients {
			case "":
			case "request", "require":
				fmt.Fprintf(&b, "\t\tclients %s\n", x.Clients)
			case "vig1":
				fmt.Fprintf(&b, "\t\tclients verify_if_given %s\n", r.caPath["1"])
			default:
				fmt.Fprintf(&b, "\t\tclients %s\n", r.caPath[policyCA(x.Clients)])
			}
			if twoLines {
				b.WriteString("\t}\n")
			} else {
				fmt.Fprintf(&b, "\t\talpn %s http/1.1\n\t}\n", s.token(x.Host))
			}
		}
		b.WriteString("}\n")
	}
	ls.text = b.String()
	return ls
}

// start renders and starts the set; Start/Stop are serialised (package-level
// state in casket's loaders), probes of different sets run in parallel.
func (r *runner) start(s *siteSet) (*liveSet, func(), error) {
	var lastErr error
	for attempt := 0; attempt < 3; attempt++ {
		port := lib.FreePort()
		ls := r.render(s, port)
		r.c.Journal("C06 start set=%d kind=%s port=%d sites=%s", s.idx, s.Kind, port, lib.JSON(s.Sites))
		r.startMu.Lock()
		inst, err := lib.Start(ls.text, "")
		r.startMu.Unlock()
		if err == nil {
			stop := func() {
				r.startMu.Lock()
				lib.StopWait(inst)
				r.startMu.Unlock()
				os.RemoveAll(filepath.Join(r.c.Dir, fmt.Sprintf("set-%d", s.idx)))
			}
			return ls, stop, nil
		}
		lastErr = err
		if !strings.Contains(err.Error(), "address already in use") {
			return ls, func() {}, err
		}
	}
	return nil, func() {}, lastErr
}

// ---------------------------------------------------------------- judging

type verdict struct {
	Key    string
	What   string
	Unsure bool
	Stage  string
	Cands  []string
}

func (ls *liveSet) expectOf(host string, of offer) (site, expectation) {
	x := ls.set.Sites[ls.set.first(host)]
	return x, expectFor(x.Proto, x.Ciphers, x.Clients, of)
}

// mismatch explains why res is not what a handshake governed by the site for
// host must look like ("" = consistent).
func (r *runner) mismatch(ls *liveSet, host string, of offer, res hsResult, fingerprint bool, stage string) (string, string) {
	x, exp := ls.expectOf(host, of)
	desc := fmt.Sprintf("site %q (protocols %q ciphers %q clients %q)", x.Host, x.Proto, x.Ciphers, x.Clients)
	if res.OK && fingerprint && res.ALPN != ls.set.token(host) {
		return "C06/wrong-site-config-governed/" + stage, fmt.Sprintf("negotiated ALPN %q names another site's tls.Config; expected %q of %s", res.ALPN, ls.set.token(host), desc)
	}
	if !exp.OK {
		if res.OK {
			return "C06/handshake-accepted-outside-site-settings/" + exp.Why, fmt.Sprintf("handshake succeeded (version %s) although %s must refuse this offer (%s)", vname(res.Version), desc, exp.Why)
		}
		return "", ""
	}
	if !res.OK {
		return "C06/handshake-refused-within-site-settings", fmt.Sprintf("handshake failed (%s) although %s must accept this offer at %s", res.Err, desc, vname(exp.Version))
	}
	if res.Version != exp.Version {
		return "C06/version-not-per-site", fmt.Sprintf("negotiated %s, expected %s under %s", vname(res.Version), vname(exp.Version), desc)
	}
	if res.Version < tls.VersionTLS13 {
		in := false
		for _, id := range exp.Suites {
			in = in || id == res.Cipher
		}
		if !in {
			return "C06/cipher-not-in-site-list", fmt.Sprintf("negotiated cipher 0x%04x is not in the list of %s", res.Cipher, desc)
		}
	}
	if want := ls.certName[certKey(host)]; res.PeerCN != want {
		return "C06/wrong-certificate", fmt.Sprintf("presented certificate %q %v, expected %q of %s", res.PeerCN, res.Names, want, desc)
	}
	if res.CertReq != exp.Asks {
		return "C06/client-cert-policy-not-per-site", fmt.Sprintf("CertificateRequest seen=%v, expected %v under %s", res.CertReq, exp.Asks, desc)
	}
	if ca := policyCA(x.Clients); ca != "" {
		in := false
		for _, s := range res.CAs {
			in = in || s == r.caSubj[ca]
		}
		if !in {
			return "C06/client-cert-policy-not-per-site", fmt.Sprintf("CertificateRequest does not name the CA of %s", desc)
		}
	}
	return "", ""
}

func vname(v uint16) string {
	switch v {
	case tls.VersionTLS10:
		return "TLS1.0"
	case tls.VersionTLS11:
		return "TLS1.1"
	case tls.VersionTLS12:
		return "TLS1.2"
	case tls.VersionTLS13:
		return "TLS1.3"
	case 0:
		return "-"
	}
	return fmt.Sprintf("0x%04x", v)
}

// judge compares one handshake with the oracle: it must be consistent with
// at least one of the sites the reference matcher allows to govern.
func (r *runner) judge(ls *liveSet, sni string, of offer, res hsResult, fingerprint bool) verdict {
	cands, stage := refMatch(ls.set.hosts(), sni, localIP)
	v := verdict{Stage: stage, Cands: cands}
	if res.Unsure {
		v.Unsure = true
		return v
	}
	if len(cands) == 0 {
		return v // no site and no catch-all: nothing is asserted
	}
	for i, h := range cands {
		k, w := r.mismatch(ls, h, of, res, fingerprint, stage)
		if k == "" {
			v.Key, v.What = "", ""
			return v
		}
		if i == 0 {
			v.Key, v.What = k, w
		}
	}
	return v
}

// ---------------------------------------------------------------- probing

type httpObs struct {
	Host   string `json:"host"`
	Path   string `json:"path"`
	Status int    `json:"status"`
	Marker string `json:"marker,omitempty"`
}

type probeOut struct {
	V1, V2 verdict
	R1, R2 hsResult
	HTTP   []httpObs
	// HTTP-phase violation
	HKey, HWhat string
	HObs        *httpObs
}

func (r *runner) paths(s *siteSet) []string {
	for _, x := range s.Sites {
		if x.Path != "" {
			return []string{"/", "/x/"}
		}
	}
	return []string{"/"}
}

// routedDemands: does the reference router send (host, path) to a site that
// demands client certificates? Only used for counting blocked requests.
func routedDemands(s *siteSet, host, path string) bool {
	cands, _ := refMatch(s.hosts(), hostOnly(host), "\x00")
	if hostOnly(host) == "" {
		cands = nil
		for _, h := range s.hosts() {
			if isCatchAll(h) {
				cands = append(cands, h)
			}
		}
	}
	for _, h := range cands {
		best, bestLen := -1, -1
		for i, x := range s.Sites {
			p := x.Path
			if p == "" {
				p = "/"
			}
			if x.Host == h && strings.HasPrefix(path, p) && len(p) > bestLen {
				best, bestLen = i, len(p)
			}
		}
		if best >= 0 && policyDemands(s.Sites[best].Clients) {
			return true
		}
	}
	return false
}

func (r *runner) probeOnce(ls *liveSet, sni string, of offer) probeOut {
	var out probeOut
	addr := net.JoinHostPort(localIP, strconv.Itoa(ls.port))
	c := r.c

	// connection 1: fingerprint
	conn, res := dialTLS(addr, sni, of, ls.set.tokens(), r.cc)
	if conn != nil {
		settle(conn, &res)
	}
	out.R1 = res
	out.V1 = r.judge(ls, sni, of, res, true)
	c.Count("handshakes", 1)
	if res.OK {
		c.Count("handshakes_ok", 1)
		c.Count("negotiated_"+vname(res.Version), 1)
		if res.CertReq {
			c.Count("certificate_requests_seen", 1)
		}
	} else if !res.Unsure {
		c.Count("handshakes_refused", 1)
	}

	// connection 2: HTTP
	hosts := append([]string{}, hostHeaders...)
	if sni != "" {
		hosts = append(hosts, strings.ToLower(sni), strings.ToUpper(sni)+":"+strconv.Itoa(ls.port))
	}
	var hc *httpConn
	var res2 hsResult
	first := true
	fails := 0
	open := func() bool {
		cn, rs := dialTLS(addr, sni, of, []string{"http/1.1"}, r.cc)
		if first {
			res2 = rs
		}
		if cn == nil {
			return false
		}
		hc = newHTTPConn(cn)
		return true
	}
	served := 0
loop:
	for _, p := range r.paths(ls.set) {
		for _, h := range hosts {
			if hc == nil {
				if fails >= 2 || !open() {
					break loop
				}
			}
			rsp := hc.get(h, p)
			if rsp.Err != nil {
				hc.close()
				hc = nil
				if first {
					// the first exchange decides whether the server accepted
					// the handshake at all (TLS 1.3 client certificates)
					res2.OK = false
					res2.Err = "first request: " + rsp.Err.Error()
					res2.Unsure = !isTLSAlert(rsp.Err) || isTransport(rsp.Err)
					break loop
				}
				fails++
				continue
			}
			first = false
			served++
			c.Count("http_requests", 1)
			ob := httpObs{Host: h, Path: p, Status: rsp.Status, Marker: rsp.Marker}
			out.HTTP = append(out.HTTP, ob)
			// (a bracketed name is compared with and without its brackets: "[a.test]" sent
			// as SNI and as Host do agree)
			mismatch := sni != "" && strings.ToLower(sni) != hostOnly(h) && strings.ToLower(sni) != "["+hostOnly(h)+"]"
			if rsp.Marker != "" {
				c.Count("http_served_by_a_site", 1)
				var si, xi int
				if n, _ := fmt.Sscanf(rsp.Marker, "%d.%d", &si, &xi); n == 2 && si == ls.set.idx && xi < len(ls.set.Sites) {
					x := ls.set.Sites[xi]
					if policyDemands(x.Clients) {
						c.Count("http_served_by_client_auth_site", 1)
						presented := res2.CertReq && res2.Sent && (policyCA(x.Clients) == "" || of.Cert == "c"+policyCA(x.Clients))
						switch {
						case mismatch && out.HKey == "":
							out.HKey = "C06/clientauth-site-served-under-other-sni/" + out.V1.Stage
							out.HWhat = fmt.Sprintf("site %q demands client certificates (%s) but served Host %q on a connection whose handshake was made under SNI %q", x.Host, x.Clients, h, sni)
							out.HObs = &ob
						case !presented && out.HKey == "":
							out.HKey = "C06/clientauth-site-served-without-client-cert/" + out.V1.Stage
							out.HWhat = fmt.Sprintf("site %q demands client certificates (%s) but served Host %q over a handshake (SNI %q) in which no acceptable client certificate was demanded and presented (CertificateRequest seen=%v, client sent=%q)", x.Host, x.Clients, h, sni, res2.CertReq, of.Cert)
							out.HObs = &ob
						}
					}
				}
			} else if mismatch && routedDemands(ls.set, h, p) {
				c.Count("http_blocked_sni_host_mismatch", 1)
				if rsp.Status == 403 {
					c.Count("http_blocked_with_403", 1)
				}
			}
			if rsp.Close {
				hc.close()
				hc = nil
			}
		}
	}
	if hc != nil {
		hc.close()
	}
	if first && res2.OK {
		// handshake fine but nothing was asked (cannot happen: hosts is non-empty)
		res2.Unsure = true
	}
	out.R2 = res2
	out.V2 = r.judge(ls, sni, of, res2, false)
	c.Count("handshakes", 1)
	return out
}

type witness struct {
	Casketfile string      `json:"casketfile"`
	Port       int         `json:"port"`
	Sites      []site      `json:"sites"`
	SNI        string      `json:"sni"`
	Offer      offer       `json:"client_offer"`
	Matched    []string    `json:"reference_matched_hosts"`
	Stage      string      `json:"stage"`
	Conn1      hsResult    `json:"connection1_fingerprint"`
	Conn2      hsResult    `json:"connection2_http"`
	Request    *httpObs    `json:"request,omitempty"`
	HTTP       []httpObs   `json:"http,omitempty"`
	Attempts   int         `json:"attempts"`
	Note       interface{} `json:"note,omitempty"`
}

// noteUnreproduced keeps suspected violations that a repetition cleared.
func (r *runner) noteUnreproduced(ls *liveSet, sni string, of offer, keys []string) {
	r.unrepMu.Lock()
	defer r.unrepMu.Unlock()
	if len(r.unrep) < 10 {
		r.unrep = append(r.unrep, map[string]interface{}{"keys": keys, "sites": ls.set.Sites, "sni": sni, "offer": of})
		r.c.Set("suspects_not_reproduced_samples", r.unrep)
	}
}

func scrubCAs(r hsResult) hsResult {
	for i, s := range r.CAs {
		r.CAs[i] = fmt.Sprintf("%q", s)
	}
	return r
}

// probe runs a probe; a suspected violation or transport trouble is retried
// and only a verdict that repeats every time is reported.
func (r *runner) probe(ls *liveSet, sni string, of offer) {
	c := r.c
	c.Journal("C06 probe set=%d sni=%q offer=%s", ls.set.idx, sni, lib.JSON(of))
	c.Eval(1)
	const attempts = 3
	var out probeOut
	keyOf := func(o probeOut) string {
		switch {
		case o.V1.Key != "":
			return o.V1.Key
		case o.V2.Key != "":
			return o.V2.Key
		case o.HKey != "":
			return o.HKey
		}
		return ""
	}
	// Attempts with transport trouble decide nothing and are repeated (at
	// most 3 of them); a suspected violation must repeat on 3 decided
	// attempts; one clean decided attempt clears the probe.
	var key string
	var suspects []string
	n, unsureN := 0, 0
	for len(suspects) < attempts && unsureN < attempts {
		n++
		out = r.probeOnce(ls, sni, of)
		if out.V1.Unsure || out.V2.Unsure {
			unsureN++
			c.Count("probe_retries_transport", 1)
			if debug {
				fmt.Printf("transport retry: set=%d sni=%q offer=%s c1=%q c2=%q\n", ls.set.idx, sni, lib.JSON(of), out.R1.Err, out.R2.Err)
			}
			continue
		}
		k := keyOf(out)
		if k == "" {
			if len(suspects) > 0 {
				c.Count("suspects_not_reproduced", 1)
				r.noteUnreproduced(ls, sni, of, suspects)
			}
			suspects = nil
			break
		}
		suspects = append(suspects, k)
		if len(suspects) < attempts {
			c.Count("probe_retries_suspect", 1)
		}
	}
	undecided := unsureN >= attempts
	if len(suspects) == attempts {
		key = suspects[0]
	}
	stage := out.V1.Stage
	c.Count("stage_"+stage, 1)
	if stage == stNone {
		c.Count("unasserted_no_matching_site", 1)
	} else {
		c.Nontrivial(fmt.Sprintf("%s|%s|%s|%d-%d-%s-%s", ls.set.signature(), stage, strings.ToLower(sni), of.VMin, of.VMax, of.Ciphers, of.Cert))
	}
	if key == "" {
		if undecided {
			c.Inconclusive(fmt.Sprintf("set %d sni %q offer %s: transport trouble on every attempt (%s / %s)", ls.set.idx, sni, lib.JSON(of), out.R1.Err, out.R2.Err))
		}
		if len(out.V1.Cands) > 0 && !out.R1.OK && !out.R1.Unsure {
			c.Count("refusals_matching_oracle", 1)
		}
		c.SampleTag("probe-"+stage, 1, map[string]interface{}{"sites": ls.set.Sites, "sni": sni, "offer": of, "matched": out.V1.Cands,
			"conn1": map[string]interface{}{"ok": out.R1.OK, "version": vname(out.R1.Version), "alpn": out.R1.ALPN, "cert": out.R1.PeerCN, "cert_requested": out.R1.CertReq, "err": out.R1.Err},
			"http":  out.HTTP})
		return
	}
	w := witness{Casketfile: ls.text, Port: ls.port, Sites: ls.set.Sites, SNI: sni, Offer: of, Matched: out.V1.Cands, Stage: stage,
		Conn1: scrubCAs(out.R1), Conn2: scrubCAs(out.R2), Attempts: n}
	what := ""
	switch key {
	case out.V1.Key:
		what = "connection 1 (fingerprint ALPN): " + out.V1.What
	case out.V2.Key:
		what = "connection 2 (http/1.1): " + out.V2.What
	default:
		what = out.HWhat
		w.Request = out.HObs
		w.HTTP = out.HTTP
	}
	if ls.set.Kind == "alias" {
		w.Note = "the set declares two catch-all spellings (\"\" and 0.0.0.0); either may govern a handshake, but whichever site serves must have had its client-certificate policy applied"
	}
	c.Violation(key, what, w)
}

// offersFor picks the client offers tried for one SNI name of a set.
func (r *runner) offersFor(ls *liveSet, sni string, rng *lib.Rng, k int, exhaustive bool) []offer {
	var out []offer
	if exhaustive {
		for _, vr := range versionOffers {
			for _, ci := range []string{"all", "cbc", "gcm", "chacha"} {
				for _, ce := range certOffers {
					out = append(out, offer{vr[0], vr[1], ci, ce})
				}
			}
		}
		return out
	}
	// one offer that the matched site should accept if any can
	cert := "c1"
	if cands, _ := refMatch(ls.set.hosts(), sni, localIP); len(cands) > 0 {
		x := ls.set.Sites[ls.set.first(cands[0])]
		if x.Clients == "ca2" {
			cert = "c2"
		}
		if !policyAsks(x.Clients) && rng.Intn(2) == 0 {
			cert = "none"
		}
	}
	out = append(out, offer{tls.VersionTLS10, tls.VersionTLS13, "all", cert})
	for i := 0; i < k; i++ {
		vr := versionOffers[rng.Intn(len(versionOffers))]
		out = append(out, offer{vr[0], vr[1], cipherOffers[rng.Intn(len(cipherOffers))], certOffers[rng.Intn(len(certOffers))]})
	}
	return out
}

func (r *runner) runValid(s *siteSet, k int, exhaustive bool) {
	c := r.c
	ls, stop, err := r.start(s)
	if err != nil {
		// a valid set that does not start is a harness problem, not a
		// statement about C06
		c.Count("valid_sets_failed_to_start", 1)
		c.Inconclusive(fmt.Sprintf("valid set %d did not start: %v\n%s", s.idx, err, textOf(ls)))
		return
	}
	defer stop()
	c.Count("sets_started", 1)
	c.Count("sites_started", int64(len(s.Sites)))
	rng := c.Rng(fmt.Sprintf("offers-%d", s.idx))
	type job struct {
		sni string
		of  offer
	}
	var jobs []job
	for _, sni := range sniAlphabet {
		for _, of := range r.offersFor(ls, sni, rng, k, exhaustive) {
			jobs = append(jobs, job{sni, of})
		}
	}
	par := 1
	if exhaustive {
		par = 8
	}
	var wg sync.WaitGroup
	ch := make(chan job)
	for i := 0; i < par; i++ {
		wg.Add(1)
		go func() {
			defer wg.Done()
			for j := range ch {
				r.probe(ls, j.sni, j.of)
			}
		}()
	}
	for _, j := range jobs {
		ch <- j
	}
	close(ch)
	wg.Wait()
}

func textOf(ls *liveSet) string {
	if ls == nil {
		return ""
	}
	return ls.text
}

// runInvalid: the set must make casket.Start return an error and leave no
// listener behind.
func (r *runner) runInvalid(s *siteSet) {
	c := r.c
	c.Eval(1)
	port := lib.FreePort()
	ls := r.render(s, port)
	defer os.RemoveAll(filepath.Join(c.Dir, fmt.Sprintf("set-%d", s.idx)))
	c.Journal("C06 invalid set=%d kind=%s port=%d sites=%s", s.idx, s.Kind, port, lib.JSON(s.Sites))
	c.Nontrivial("invalid|" + s.Kind + "|" + s.signature())
	r.startMu.Lock()
	inst, err := lib.Start(ls.text, "")
	var left int
	if err != nil {
		left = lib.OwnListeningPorts()[port]
	}
	r.startMu.Unlock()
	c.SampleTag(s.Kind, 1, map[string]interface{}{"sites": s.Sites, "start_error": fmt.Sprint(err)})
	if err != nil {
		if strings.Contains(err.Error(), "address already in use") {
			c.Inconclusive(fmt.Sprintf("invalid set %d: port collision: %v", s.idx, err))
			return
		}
		c.Count("invalid_sets_rejected", 1)
		c.Count("invalid_rejected_"+s.Invalid, 1)
		switch {
		case strings.Contains(err.Error(), "cannot multiplex"):
			c.Count("invalid_rejected_reason_multiplex", 1)
		case strings.Contains(err.Error(), "incompatible TLS configurations"):
			c.Count("invalid_rejected_reason_incompatible", 1)
		default:
			c.Count("invalid_rejected_reason_other", 1)
			if debug {
				fmt.Printf("other rejection: %v\n%s\n", err, ls.text)
			}
		}
		if left > 0 {
			c.Violation("C06/rejected-set-left-listener", fmt.Sprintf("Start failed (%v) but port %d is still listening", err, port),
				map[string]interface{}{"casketfile": ls.text, "sites": s.Sites, "port": port, "error": err.Error()})
		}
		return
	}
	// accepted: gather what the listener does, then stop it
	obs := map[string]interface{}{}
	addr := net.JoinHostPort(localIP, strconv.Itoa(port))
	for _, sni := range []string{"stray.example", "a.test", ""} {
		o := map[string]interface{}{}
		of := offer{tls.VersionTLS10, tls.VersionTLS13, "all", "none"}
		conn, res := dialTLS(addr, sni, of, s.tokens(), r.cc)
		if conn != nil {
			settle(conn, &res)
		}
		o["fingerprint_handshake"] = scrubCAs(res)
		if conn, res := dialTLS(addr, sni, of, []string{"http/1.1"}, r.cc); conn != nil {
			hc := newHTTPConn(conn)
			rsp := hc.get(sni, "/")
			hc.close()
			o["request_host_equal_sni"] = map[string]interface{}{"status": rsp.Status, "served_by_site": rsp.Marker, "error": fmt.Sprint(rsp.Err), "certificate_requested": res.CertReq}
			var si, xi int
			if n, _ := fmt.Sscanf(rsp.Marker, "%d.%d", &si, &xi); n == 2 && xi < len(s.Sites) && policyDemands(s.Sites[xi].Clients) && !res.CertReq {
				o["consequence"] = fmt.Sprintf("site #%d (%q, clients %s) served a request over a handshake that asked for no client certificate", xi, s.Sites[xi].Host, s.Sites[xi].Clients)
			}
		}
		obs[fmt.Sprintf("sni=%q", sni)] = o
	}
	if rsp := lib.Once(addr, "GET", "/", "a.test"); rsp != nil {
		obs["plaintext_request"] = map[string]interface{}{"status": rsp.Status, "error": fmt.Sprint(rsp.Err)}
	}
	r.startMu.Lock()
	lib.StopWait(inst)
	r.startMu.Unlock()
	key := "C06/mixed-tls-plaintext-accepted"
	what := "a site set with TLS and plaintext sites on one listener was started"
	if s.Invalid == "incompat" {
		key = "C06/incompatible-same-name-accepted/named"
		what = "two sites with the same SNI name and incompatible TLS settings on one listener were started"
		// which name is declared twice with different settings?
		for i, a := range s.Sites {
			for _, b := range s.Sites[i+1:] {
				same := a.Host == b.Host || (isCatchAll(a.Host) && isCatchAll(b.Host))
				if same && (a.Proto != b.Proto || a.Ciphers != b.Ciphers || a.Clients != b.Clients) && (a.Host == "0.0.0.0" || b.Host == "0.0.0.0") {
					key = "C06/incompatible-same-name-accepted/catchall-spelling"
					what = "two catch-all sites (one spelled 0.0.0.0; both are the SNI name \"\") with incompatible TLS settings on one listener were started"
				}
			}
		}
	}
	c.Violation(key, what, map[string]interface{}{"casketfile": ls.text, "sites": s.Sites, "port": port, "listener_behaviour": obs})
}

// ---------------------------------------------------------------- run

func run(c *lib.Ctx) {
	c.Rule("site sets: 2..6 HTTPS sites on one listener, host patterns from {a.test, b.a.test, *.a.test, *.*.test, *.test, w.test, *.w.test, localhost, 127.0.0.1, catch-all ':port', 0.0.0.0} (random subsets, letter case varied, optional same-host site under /x) x per-site protocols {default, tls1.2, tls1.3, tls1.2-1.3, tls1.0-1.1, tls1.0-1.3, tls1.1-1.2, tls1.0} x ciphers {default, GCM128, CBC+GCM, CBC} x clients {none, request, require, CA1, CA2, verify_if_given CA1}; seed-independent core sets (design layouts, wildcard ladder, default-minimum, catch-all spellings) get the full client-offer product. Per set every SNI of a 14-name alphabet (exact, wildcard at depth 1..3, unmatched, upper case, empty) x client offers (10 version ranges x {all, CBC, GCM, ChaCha} suites x {no cert, cert of CA1, cert of CA2}); each probe = fingerprint handshake + http/1.1 handshake with >= 10 Host headers. Invalid sets: TLS+plaintext mixes and same-name sites with different protocols/ciphers/clients. Non-trivial = distinct (site set, matching stage, SNI, client offer) whose SNI the reference matcher resolves to a site (exact, wildcard, catch-all or empty-SNI stage), plus distinct invalid sets")
	lib.CaptureLog()
	r := &runner{c: c, caPath: map[string]string{}, caSubj: map[string]string{}, cc: &clientCerts{}}
	r.root = filepath.Join(c.Dir, "root")
	os.MkdirAll(r.root, 0o755)
	os.WriteFile(filepath.Join(r.root, "index.html"), []byte("c06\n"), 0o644)
	cadir := filepath.Join(c.Dir, "ca")
	os.MkdirAll(cadir, 0o755)
	for _, k := range []string{"1", "2"} {
		crt, key, cert := lib.MintCert(cadir, "client-ca"+k, []string{"client" + k + ".test"})
		r.caPath[k] = crt
		r.caSubj[k] = subjectOf(cert)
		pair, err := tls.LoadX509KeyPair(crt, key)
		if err != nil {
			panic(err)
		}
		pair.Leaf, _ = x509.ParseCertificate(pair.Certificate[0])
		if k == "1" {
			r.cc.c1 = pair
		} else {
			r.cc.c2 = pair
		}
	}

	// ---- case list (pure function of seed and tier)
	var valid []*siteSet
	core := coreSets()
	for i, s := range core {
		s.idx = i
	}
	nRandom := c.Pick(200, 2000)
	gr := c.Rng("sets")
	for i := 0; i < nRandom; i++ {
		valid = append(valid, genRandomSet(gr, 1000+i))
	}
	invalid := coreInvalid()
	for i, s := range invalid {
		s.idx = 90000 + i
	}
	gi := c.Rng("invalid")
	for i := 0; i < c.Pick(60, 600); i++ {
		invalid = append(invalid, genInvalidSet(gi, 100000+i))
	}

	t0 := time.Now()
	// ---- invalid sets (sequential: they look at this process' listeners)
	for _, s := range invalid {
		r.runInvalid(s)
	}
	if debug {
		fmt.Printf("invalid sets done in %v\n", time.Since(t0))
	}

	// ---- valid sets, in parallel
	type task struct {
		s          *siteSet
		k          int
		exhaustive bool
	}
	var tasks []task
	for _, s := range core {
		// the full offer product in the thorough tier; a large sample in quick
		if c.Quick() {
			tasks = append(tasks, task{s, 12, false})
		} else {
			tasks = append(tasks, task{s, 0, true})
		}
	}
	for _, s := range valid {
		tasks = append(tasks, task{s, c.Pick(4, 8), false})
	}
	var wg sync.WaitGroup
	ch := make(chan task)
	for i := 0; i < 16; i++ {
		wg.Add(1)
		go func() {
			defer wg.Done()
			for t := range ch {
				r.runValid(t.s, t.k, t.exhaustive)
			}
		}()
	}
	for _, t := range tasks {
		ch <- t
	}
	close(ch)
	wg.Wait()
	if debug {
		fmt.Printf("all sets done in %v\n", time.Since(t0))
	}

	r.rotationPhase()

	// ---- floors: a run that saw too little is broken, not a pass
	c.Floor("rotation_probes", 8)
	c.Floor("sets_started", int64(len(tasks)*9/10))
	c.Floor("handshakes_ok", 1000)
	c.Floor("refusals_matching_oracle", 200)
	for _, st := range []string{stExact, stWildcard, stCatchAll, stEmptySNI, stNone} {
		c.Floor("stage_"+st, 50)
	}
	for _, v := range []string{"TLS1.0", "TLS1.1", "TLS1.2", "TLS1.3"} {
		c.Floor("negotiated_"+v, 20)
	}
	c.Floor("certificate_requests_seen", 100)
	c.Floor("http_requests", 5000)
	c.Floor("http_served_by_client_auth_site", 20)
	c.Floor("http_blocked_sni_host_mismatch", 100)
	c.Floor("invalid_rejected_mixed", 10)
	c.Floor("invalid_rejected_incompat", 10)

	c.Assume("all server certificates are ECDSA P-256, so only ECDHE-ECDSA suites (3 AEAD, 2 CBC-SHA) can be negotiated below TLS 1.3; RSA suites, curve preferences and session resumption are not exercised")
	c.Assume("a handshake counts as accepted when the client completed it and the server then either answered an HTTP request or closed cleanly (connection 1: the fingerprint ALPN has no handler); a TLS alert at any point counts as refused; resets/timeouts are retried and otherwise inconclusive")
	c.Assume("for an SNI name that matches no site when there is no catch-all nothing is asserted; for an absent SNI either the site for the local IP address or a catch-all may govern; different catch-all spellings on one listener are not ranked")
	c.Assume("'demands client certificates' = clients require or a CA list (RequireAnyClientCert / RequireAndVerifyClientCert); request and verify_if_given sites are observed but not asserted in the SNI/Host rule; insecure_disable_sni_matching (an explicit opt-out) is never configured")
	c.Assume("the Go crypto/tls client is the only ClientHello generator: SNI is never an IP literal, ClientHello extensions are Go's")
	c.Assume("one site set per instance: certmagic's certificate cache is per instance and keyed by subject name, so each host pattern has exactly one certificate whose only SAN is the pattern (catch-all: the SNI names only it matches)")
}
