package c06

import (
	"crypto/tls"
	"fmt"
	"net"
	"os"
	"path/filepath"
	"strconv"

	"verifharness/lib"
)

// Rotation phase: the client-certificate policy in force is the one of the
// configuration loaded last. The CA bundle a site names is replaced under the
// same file name and the configuration reloaded (the text does not change);
// from then on certificates of the new CA are accepted and those of the
// retired one refused - in this process, which has loaded the old bundle before.
func (r *runner) rotationPhase() {
	c := r.c
	dir := filepath.Join(c.Dir, "rotation")
	os.MkdirAll(dir, 0o755)
	rot := filepath.Join(dir, "client-ca.pem")
	crt, key, _ := lib.MintCert(dir, "rot-site", []string{"a.test"})
	port := lib.FreePort()
	text := fmt.Sprintf("a.test:%d {\n\troot %s\n\ttimeouts none\n\theader / %s rotation\n\ttls %s %s {\n\t\tno_redirect\n\t\tclients %s\n\t}\n}\n", port, r.root, markerHeader, crt, key, rot)
	put := func(k string) {
		b, _ := os.ReadFile(r.caPath[k])
		os.WriteFile(rot, b, 0o644)
	}
	put("1")
	inst, err := lib.Start(text, filepath.Join(dir, "Casketfile"))
	if err != nil {
		c.Inconclusive("rotation phase: cannot start: " + err.Error())
		return
	}
	defer func() { lib.StopWait(inst) }()
	addr := net.JoinHostPort(localIP, strconv.Itoa(port))
	served := func(cert string) (bool, string) {
		conn, res := dialTLS(addr, "a.test", offer{VMin: tls.VersionTLS12, VMax: tls.VersionTLS13, Ciphers: "all", Cert: cert}, []string{"http/1.1"}, r.cc)
		if conn == nil {
			return false, res.Err
		}
		hc := newHTTPConn(conn)
		defer hc.close()
		rsp := hc.get("a.test", "/")
		if rsp.Err != nil {
			return false, rsp.Err.Error()
		}
		return rsp.Status == 200 && rsp.Marker == "rotation", fmt.Sprintf("status %d", rsp.Status)
	}
	rounds := c.Pick(4, 12)
	for round := 0; round < rounds; round++ {
		want, other := "1", "2"
		if round%2 == 1 {
			want, other = "2", "1"
		}
		if round > 0 {
			put(want)
			ni, err := inst.Restart(lib.Input(text, filepath.Join(dir, "Casketfile")))
			if err != nil {
				c.Inconclusive("rotation phase: reload failed: " + err.Error())
				return
			}
			inst = ni
		}
		c.Journal("C06 rotation round %d: bundle is CA %s", round, want)
		wit := map[string]interface{}{"round": round, "bundle_now_holds": "client CA " + want, "site_block": text, "reloads_so_far": round}
		okWant, whyWant := served("c" + want)
		okOther, whyOther := served("c" + other)
		c.Eval(2)
		c.Count("rotation_probes", 2)
		wit["with_current_ca_certificate"], wit["with_retired_ca_certificate"] = whyWant, whyOther
		if !okWant {
			c.Violation("C06/client-ca-after-reload/current-ca-refused", fmt.Sprintf("after %d reload(s) the site's CA bundle holds CA %s, but a certificate of that CA is refused (%s)", round, want, whyWant), wit)
		}
		if okOther {
			c.Violation("C06/client-ca-after-reload/retired-ca-accepted", fmt.Sprintf("after %d reload(s) the site's CA bundle holds CA %s only, yet a certificate of CA %s is accepted and the request served", round, want, other), wit)
		}
		if okWant && !okOther {
			c.Nontrivial(fmt.Sprintf("rotation/%d", round))
		}
	}
}
