package c06

import (
	"crypto/tls"
	"strings"
)

// This file is the ORACLE: a reference model written from the statement of
// C06 and from the TLS protocol itself (what a handshake between two offers
// can negotiate). It shares no code with casket.

// ---------------------------------------------------------------- settings

// protoRange is the version range a `protocols` setting stands for; a site
// that sets nothing has TLS 1.2 as its minimum (statement) and no upper
// limit below the newest version.
func protoRange(p string) (uint16, uint16) {
	switch p {
	case "":
		return tls.VersionTLS12, tls.VersionTLS13
	case "tls1.2":
		return tls.VersionTLS12, tls.VersionTLS12
	case "tls1.3":
		return tls.VersionTLS13, tls.VersionTLS13
	case "tls1.2 tls1.3":
		return tls.VersionTLS12, tls.VersionTLS13
	case "tls1.0 tls1.1":
		return tls.VersionTLS10, tls.VersionTLS11
	case "tls1.0 tls1.3":
		return tls.VersionTLS10, tls.VersionTLS13
	case "tls1.1 tls1.2":
		return tls.VersionTLS11, tls.VersionTLS12
	case "tls1.0":
		return tls.VersionTLS10, tls.VersionTLS10
	}
	panic("unknown protocols setting " + p)
}

// Cipher suites the harness uses. All certificates are ECDSA P-256, so only
// ECDHE-ECDSA suites can ever be negotiated below TLS 1.3; the RSA suites of
// casket's default list are irrelevant. legacy = usable below TLS 1.2.
type suite struct {
	Name   string // casket's spelling
	ID     uint16
	Legacy bool
}

var suites = []suite{
	{"ECDHE-ECDSA-AES128-GCM-SHA256", tls.TLS_ECDHE_ECDSA_WITH_AES_128_GCM_SHA256, false},
	{"ECDHE-ECDSA-AES256-GCM-SHA384", tls.TLS_ECDHE_ECDSA_WITH_AES_256_GCM_SHA384, false},
	{"ECDHE-ECDSA-WITH-CHACHA20-POLY1305", tls.TLS_ECDHE_ECDSA_WITH_CHACHA20_POLY1305, false},
	{"ECDHE-ECDSA-AES128-CBC-SHA", tls.TLS_ECDHE_ECDSA_WITH_AES_128_CBC_SHA, true},
	{"ECDHE-ECDSA-AES256-CBC-SHA", tls.TLS_ECDHE_ECDSA_WITH_AES_256_CBC_SHA, true},
}

func suiteByID(id uint16) *suite {
	for i := range suites {
		if suites[i].ID == id {
			return &suites[i]
		}
	}
	return nil
}

// siteCipherNames maps a site's cipher setting to casket cipher names ("" =
// directive absent = the documented default list, whose ECDSA members are the
// three AEAD suites).
var siteCipherNames = map[string][]string{
	"":       nil,
	"gcm128": {"ECDHE-ECDSA-AES128-GCM-SHA256"},
	"cbcgcm": {"ECDHE-ECDSA-AES256-CBC-SHA", "ECDHE-ECDSA-AES128-GCM-SHA256"},
	"cbc":    {"ECDHE-ECDSA-AES128-CBC-SHA"},
}

func siteCipherIDs(setting string) []uint16 {
	names := siteCipherNames[setting]
	if setting == "" {
		names = []string{"ECDHE-ECDSA-AES128-GCM-SHA256", "ECDHE-ECDSA-AES256-GCM-SHA384", "ECDHE-ECDSA-WITH-CHACHA20-POLY1305"}
	}
	var out []uint16
	for _, n := range names {
		for _, s := range suites {
			if s.Name == n {
				out = append(out, s.ID)
			}
		}
	}
	return out
}

// clientCipherIDs maps a client cipher offer to suite ids.
func clientCipherIDs(offer string) []uint16 {
	switch offer {
	case "all":
		return []uint16{suites[0].ID, suites[1].ID, suites[2].ID, suites[3].ID, suites[4].ID}
	case "cbc":
		return []uint16{suites[3].ID, suites[4].ID}
	case "gcm":
		return []uint16{suites[0].ID, suites[1].ID}
	case "chacha":
		return []uint16{suites[2].ID}
	}
	panic("unknown client cipher offer " + offer)
}

// commonSuites lists the suites usable at version v between a site and a
// client offer (TLS 1.3 suites are not configurable: nil, true).
func commonSuites(siteSetting, clientOffer string, v uint16) ([]uint16, bool) {
	if v >= tls.VersionTLS13 {
		return nil, true
	}
	var out []uint16
	for _, s := range siteCipherIDs(siteSetting) {
		for _, c := range clientCipherIDs(clientOffer) {
			if s == c && (v >= tls.VersionTLS12 || suiteByID(s).Legacy) {
				out = append(out, s)
			}
		}
	}
	return out, len(out) > 0
}

// Client-certificate policies of a site.
//
//	""        none: the handshake must not ask for a certificate
//	request   asks, accepts anything (also nothing)
//	require   asks, demands some certificate
//	ca1|ca2   asks, demands a certificate verified against that CA
//	vig1      asks, verifies a certificate against CA 1 if one is given
func policyAsks(p string) bool { return p != "" }

// policyDemands reports whether the site DEMANDS client certificates (the
// sites the second sentence of the statement talks about).
func policyDemands(p string) bool { return p == "require" || p == "ca1" || p == "ca2" }

// policyCA returns the CA ("1"/"2") the policy verifies against, or "".
func policyCA(p string) string {
	switch p {
	case "ca1", "vig1":
		return "1"
	case "ca2":
		return "2"
	}
	return ""
}

// policyAccepts says whether a client presenting mode ("none","c1","c2")
// passes the policy.
func policyAccepts(p, mode string) bool {
	switch p {
	case "", "request":
		return true
	case "require":
		return mode != "none"
	case "ca1":
		return mode == "c1"
	case "ca2":
		return mode == "c2"
	case "vig1":
		return mode == "none" || mode == "c1"
	}
	panic("unknown policy " + p)
}

// offer is what the test client puts on the table.
type offer struct {
	VMin    uint16 `json:"vmin"`
	VMax    uint16 `json:"vmax"`
	Ciphers string `json:"ciphers"` // all | cbc | gcm | chacha
	Cert    string `json:"cert"`    // none | c1 | c2
}

// expectation for one (site, offer).
type expectation struct {
	OK      bool
	Version uint16
	Why     string // reason of an expected refusal: version | version-default | cipher | clientcert
	Asks    bool   // a CertificateRequest must be seen
	Suites  []uint16
}

// expectFor decides what a handshake governed by site settings (proto,
// ciphers, clients) must do with the offer: the highest mutually supported
// version is chosen; there must be a cipher suite for it; the client
// certificate policy must be satisfied.
func expectFor(proto, ciphers, clients string, of offer) expectation {
	smin, smax := protoRange(proto)
	v := of.VMax
	if smax < v {
		v = smax
	}
	lo := of.VMin
	if smin > lo {
		lo = smin
	}
	if v < lo {
		why := "version"
		if proto == "" {
			why = "version-default"
		}
		return expectation{Why: why}
	}
	ss, ok := commonSuites(ciphers, of.Ciphers, v)
	if !ok {
		return expectation{Why: "cipher"}
	}
	if !policyAccepts(clients, of.Cert) {
		return expectation{Why: "clientcert", Asks: true}
	}
	return expectation{OK: true, Version: v, Asks: policyAsks(clients), Suites: ss}
}

// ---------------------------------------------------------------- matching

const (
	stExact    = "exact"
	stWildcard = "wildcard"
	stCatchAll = "catchall"
	stEmptySNI = "emptysni"
	stNone     = "none"
)

func isCatchAll(host string) bool { return host == "" || host == "0.0.0.0" }

// refMatch is the reference SNI matcher over the host patterns of a listener:
// exact name, then the name with its leading labels replaced by "*" one more
// label at a time, then a catch-all site. It returns every pattern the
// statement allows to govern (several only where the statement does not rank:
// different catch-all spellings; an absent SNI with a site for the local IP
// address) and the stage. Letter case of the SNI name is irrelevant.
func refMatch(hosts []string, sni, localIP string) ([]string, string) {
	has := func(h string) bool {
		for _, x := range hosts {
			if x == h {
				return true
			}
		}
		return false
	}
	var cas []string
	for _, h := range hosts {
		if isCatchAll(h) {
			dup := false
			for _, c := range cas {
				dup = dup || c == h
			}
			if !dup {
				cas = append(cas, h)
			}
		}
	}
	n := strings.ToLower(sni)
	if n == "" {
		// no name was sent: nothing can match by name. A site for the IP
		// address the connection arrived on and a catch-all are both
		// plausible; the statement ranks neither.
		var out []string
		if has(localIP) {
			out = append(out, localIP)
		}
		out = append(out, cas...)
		if len(out) == 0 {
			return nil, stNone
		}
		return out, stEmptySNI
	}
	if !isCatchAll(n) && has(n) {
		return []string{n}, stExact
	}
	labels := strings.Split(n, ".")
	for k := 1; k <= len(labels); k++ {
		p := append([]string{}, labels...)
		for i := 0; i < k; i++ {
			p[i] = "*"
		}
		if key := strings.Join(p, "."); has(key) {
			return []string{key}, stWildcard
		}
	}
	if len(cas) > 0 {
		return cas, stCatchAll
	}
	return nil, stNone
}

// hostOnly strips a port from a Host header value and lower-cases it.
func hostOnly(h string) string {
	h = strings.ToLower(h)
	if strings.HasPrefix(h, "[") {
		if i := strings.IndexByte(h, ']'); i >= 0 {
			return h[1:i]
		}
		return h
	}
	if i := strings.LastIndexByte(h, ':'); i >= 0 {
		return h[:i]
	}
	return h
}
