// Command c15 is the development entry point of the C15 monitor.
package main

import (
	"verifharness/lib"
	_ "verifharness/props/c15"
)

func main() { lib.Main() }
