package main

import (
	"verifharness/lib"
	_ "verifharness/props/c16"
)

func main() { lib.Main() }
