// Command c04 is the development entry point of the C04 monitor.
package main

import (
	"verifharness/lib"
	_ "verifharness/props/c04"
)

func main() { lib.Main() }
