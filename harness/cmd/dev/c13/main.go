// Command c13 is the development entry point of the C13 monitor.
package main

import (
	"verifharness/lib"
	_ "verifharness/props/c13"
)

func main() { lib.Main() }
