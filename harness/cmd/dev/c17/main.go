// Command c17 is the development entry point of the C17 monitor.
package main

import (
	"verifharness/lib"
	_ "verifharness/props/c17"
)

func main() { lib.Main() }
