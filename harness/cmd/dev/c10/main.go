// Command c10 is the development entry point of the C10 monitor.
package main

import (
	"verifharness/lib"
	_ "verifharness/props/c10"
)

func main() { lib.Main() }
