// Command c03 is the development entry point for the C03 monitor only.
package main

import (
	"verifharness/lib"
	_ "verifharness/props/c03"
)

func main() { lib.Main() }
