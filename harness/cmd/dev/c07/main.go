package main

import (
	"verifharness/lib"
	_ "verifharness/props/c07"
)

func main() { lib.Main() }
