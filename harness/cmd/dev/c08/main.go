package main

import (
	"verifharness/lib"
	_ "verifharness/props/c08"
)

func main() { lib.Main() }
