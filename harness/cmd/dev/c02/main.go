// Command c02 is the development entry point for the C02 monitor only.
package main

import (
	"verifharness/lib"
	_ "verifharness/props/c02"
)

func main() { lib.Main() }
