// Command c11 is the development entry point of the C11 monitor.
package main

import (
	"verifharness/lib"
	_ "verifharness/props/c11"
)

func main() { lib.Main() }
