// Command c06 is the development entry point of the C06 monitor.
package main

import (
	"verifharness/lib"
	_ "verifharness/props/c06"
)

func main() { lib.Main() }
