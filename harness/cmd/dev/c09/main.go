// Command c09 is the development entry point for the C09 monitor only.
package main

import (
	"verifharness/lib"
	_ "verifharness/props/c09"
)

func main() { lib.Main() }
