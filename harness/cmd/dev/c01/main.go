// Command c01 is the development entry point of the C01 monitor.
package main

import (
	"verifharness/lib"
	_ "verifharness/props/c01"
)

func main() { lib.Main() }
