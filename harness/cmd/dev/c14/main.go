package main

import (
	"verifharness/lib"
	_ "verifharness/props/c14"
)

func main() { lib.Main() }
