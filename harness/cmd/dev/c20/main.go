package main

import (
	"verifharness/lib"
	_ "verifharness/props/c20"
)

func main() { lib.Main() }
