package main

import (
	"verifharness/lib"
	_ "verifharness/props/c18"
)

func main() { lib.Main() }
