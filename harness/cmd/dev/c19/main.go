// Command c19 is the development entry point of the C19 monitor.
package main

import (
	"verifharness/lib"
	_ "verifharness/props/c19"
)

func main() { lib.Main() }
