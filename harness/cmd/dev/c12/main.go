// Command c12 is the development entry point of the C12 monitor only.
package main

import (
	"verifharness/lib"
	_ "verifharness/props/c12"
)

func main() { lib.Main() }
