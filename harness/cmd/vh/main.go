// Command vh is the verification harness binary: one sub-command per property.
package main

import (
	"verifharness/lib"
	_ "verifharness/props/c05"
)

func main() { lib.Main() }
