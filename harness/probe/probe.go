// Package probe registers the test-only `verifprobe` directive through
// casket's public RegisterDevDirective/RegisterPlugin API. It sits innermost
// (after every standard directive, before the static file server) and its
// behaviour per request is scripted by the X-Verif-Probe request header.
// Requests without that header pass through untouched.
package probe

import (
	"bytes"
	"encoding/base64"
	"encoding/json"
	"errors"
	"fmt"
	"io"
	"net/http"
	"strings"
	"sync"
	"time"

	"github.com/tmpim/casket"
	"github.com/tmpim/casket/caskethttp/httpserver"
	"verifharness/lib"
)

// Write is one body write.
type Write struct {
	N     int  `json:"n"`
	Flush bool `json:"flush,omitempty"`
}

// Spec scripts the innermost handler.
type Spec struct {
	Hdr    [][2]string `json:"hdr,omitempty"`    // response headers set before the commit
	Code   int         `json:"code,omitempty"`   // explicit WriteHeader code (0: none)
	Writes []Write     `json:"writes,omitempty"` // body writes; bytes are lib.DetBody(Tag, total)[off:off+n]
	Tag    uint64      `json:"tag,omitempty"`
	Text   string      `json:"text,omitempty"`  // literal body instead of DetBody (written in the Writes split if given, else once)
	Rep    int         `json:"rep,omitempty"`   // with Text: the body is Text repeated Rep times (large bodies without large headers)
	Ret    int         `json:"ret,omitempty"`   // returned status
	Err    string      `json:"err,omitempty"`   // returned error text ("" = nil)
	Panic  string      `json:"panic,omitempty"` // "before" | "abort-before" | "after" | ""
	// ReadBody > 0: read the request body with that read size and report.
	ReadBody int `json:"readbody,omitempty"`
	// DelayMs: the handler takes that long before it does anything (a slow
	// backend or disk).
	DelayMs int `json:"delay,omitempty"`
	// Copy: every body write is an io.Copy from a plain reader (what the
	// static file server and http.ServeContent do), so that a response
	// writer's ReadFrom, if it has one, is what receives the bytes.
	Copy bool `json:"copy,omitempty"`
	// Info > 0: an interim response with that 1xx status (and a Link header)
	// is sent first, the way 103 Early Hints are.
	Info int `json:"info,omitempty"`
	// Accel: on the first pass (request path is not Accel) the handler answers
	// like a backend that hands the request over to an internal location:
	// X-Accel-Redirect: Accel, Content-Length: 0, status 200, no body. The rest
	// of the spec is what it does when it is reached again for that location.
	Accel string `json:"accel,omitempty"`
}

// plainReader hides every method of the wrapped reader but Read.
type plainReader struct{ io.Reader }

// Encode renders the header value.
func (s Spec) Encode() string {
	b, _ := json.Marshal(s)
	return base64.StdEncoding.EncodeToString(b)
}

// Body returns the complete body the spec writes.
func (s Spec) Body() []byte {
	if s.Text != "" {
		if s.Rep > 1 {
			return []byte(strings.Repeat(s.Text, s.Rep))
		}
		return []byte(s.Text)
	}
	total := 0
	for _, w := range s.Writes {
		total += w.N
	}
	return lib.DetBody(s.Tag, total)
}

// Seen is what the probe observed for one request (keyed by X-Verif-Rid).
type Seen struct {
	Path      string
	RawQuery  string
	Method    string
	BodyBytes int
	BodySum   uint64
	BodyErr   string
	WriteErrs []string
	Hits      int
}

var (
	mu   sync.Mutex
	seen = map[string]*Seen{}
)

// Take returns and forgets the observation for a request id.
func Take(rid string) *Seen {
	mu.Lock()
	defer mu.Unlock()
	s := seen[rid]
	delete(seen, rid)
	return s
}

// Reset forgets everything.
func Reset() {
	mu.Lock()
	seen = map[string]*Seen{}
	mu.Unlock()
}

type handler struct {
	Next httpserver.Handler
}

func fnv(sum uint64, b []byte) uint64 {
	if sum == 0 {
		sum = 14695981039346656037
	}
	for _, c := range b {
		sum ^= uint64(c)
		sum *= 1099511628211
	}
	return sum
}

// Sum is the checksum used in Seen.BodySum.
func Sum(b []byte) uint64 { return fnv(0, b) }

func (h handler) ServeHTTP(w http.ResponseWriter, r *http.Request) (int, error) {
	hv := r.Header.Get("X-Verif-Probe")
	if hv == "" {
		return h.Next.ServeHTTP(w, r)
	}
	raw, err := base64.StdEncoding.DecodeString(hv)
	var s Spec
	if err != nil || json.Unmarshal(raw, &s) != nil {
		return h.Next.ServeHTTP(w, r)
	}
	rid := r.Header.Get("X-Verif-Rid")
	obs := &Seen{Path: r.URL.Path, RawQuery: r.URL.RawQuery, Method: r.Method}
	if rid != "" {
		mu.Lock()
		if old := seen[rid]; old != nil {
			obs.Hits = old.Hits
		}
		obs.Hits++
		seen[rid] = obs
		mu.Unlock()
	}
	if s.ReadBody > 0 && r.Body != nil {
		buf := make([]byte, s.ReadBody)
		for {
			n, err := r.Body.Read(buf)
			mu.Lock()
			obs.BodyBytes += n
			obs.BodySum = fnv(obs.BodySum, buf[:n])
			mu.Unlock()
			if err != nil {
				if err != io.EOF {
					mu.Lock()
					obs.BodyErr = err.Error()
					mu.Unlock()
					if err == httpserver.ErrMaxBytesExceeded {
						mu.Lock()
						obs.BodyErr = "ErrMaxBytesExceeded"
						mu.Unlock()
					}
				}
				break
			}
		}
	}
	if s.Accel != "" && r.URL.Path != s.Accel {
		w.Header().Set("X-Accel-Redirect", s.Accel)
		w.Header().Set("Content-Length", "0")
		w.WriteHeader(http.StatusOK)
		return 0, nil
	}
	if s.DelayMs > 0 {
		time.Sleep(time.Duration(s.DelayMs) * time.Millisecond)
	}
	if s.Panic == "before" {
		panic("verifprobe: scripted panic before writing")
	}
	if s.Panic == "abort-before" {
		// the value net/http and httputil.ReverseProxy use to abort a handler
		panic(http.ErrAbortHandler)
	}
	if s.Info >= 100 && s.Info < 200 {
		w.Header().Set("Link", "</style.css>; rel=preload; as=style")
		w.WriteHeader(s.Info)
		w.Header().Del("Link")
	}
	for _, kv := range s.Hdr {
		w.Header().Add(kv[0], kv[1])
	}
	if s.Code != 0 {
		w.WriteHeader(s.Code)
	}
	body := s.Body()
	if s.Text != "" && len(s.Writes) == 0 {
		if _, err := w.Write(body); err != nil {
			obs.WriteErrs = append(obs.WriteErrs, err.Error())
		}
	} else {
		off := 0
		for _, wr := range s.Writes {
			end := off + wr.N
			if end > len(body) {
				end = len(body)
			}
			var err error
			if s.Copy {
				_, err = io.Copy(w, plainReader{bytes.NewReader(body[off:end])})
			} else {
				_, err = w.Write(body[off:end])
			}
			if err != nil {
				mu.Lock()
				obs.WriteErrs = append(obs.WriteErrs, err.Error())
				mu.Unlock()
			}
			off = end
			if wr.Flush {
				if f, ok := w.(http.Flusher); ok {
					f.Flush()
				}
			}
		}
	}
	if s.Panic == "after" {
		panic("verifprobe: scripted panic after writing")
	}
	if s.Err != "" {
		return s.Ret, errors.New(s.Err)
	}
	return s.Ret, nil
}

func setup(c *casket.Controller) error {
	for c.Next() {
		if c.NextArg() {
			return c.ArgErr()
		}
	}
	httpserver.GetConfig(c).AddMiddleware(func(next httpserver.Handler) httpserver.Handler {
		return handler{Next: next}
	})
	return nil
}

var once sync.Once

// Register installs the directive (idempotent).
func Register() {
	once.Do(func() {
		httpserver.RegisterDevDirective("verifprobe", "")
		casket.RegisterPlugin("verifprobe", casket.Plugin{ServerType: "http", Action: setup})
	})
}

func init() { Register() }

// Describe is a short printable form.
func (s Spec) Describe() string {
	return fmt.Sprintf("code=%d writes=%d ret=%d err=%q panic=%q", s.Code, len(s.Writes), s.Ret, s.Err, s.Panic)
}
